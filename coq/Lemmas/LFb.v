(* C02: the fixed-bed model is defined on the envelope.  The bed half-angle read from the table lies in (0.45, 2.05)
   for every bed fraction Cvs/Cvb in [1/30, 3/4] (from C19: the interpolated angle reproduces the segment area within
   0.0075), which makes every perimeter, area, hydraulic diameter and Reynolds number positive and keeps every
   logarithm argument of the three friction factors strictly inside (0, 1). *)
From Coq Require Import Reals Lra List.
From Interval Require Import Tactic.
From DHV Require Import NumOps RInst Interp InterpOk SwameeJain LIl LSettle LDefined LC19.
From DHV Require Constants Tables Homogeneous HomogeneousOk Stratified StratifiedOk.
Local Open Scope R_scope.

Lemma sincos_half b : - (1 / 2) <= sin b * cos b <= 1 / 2.
Proof.
  pose proof (sin2_cos2 b) as H. unfold Rsqr in H. set (s := sin b) in *. set (c := cos b) in *.
  assert (A : 0 <= (s - c) * (s - c)) by (apply Rle_0_sqr). assert (B : 0 <= (s + c) * (s + c)) by (apply Rle_0_sqr).
  split; nra.
Qed.

Lemma Rabs_le_inv' x e : Rabs x <= e -> - e <= x <= e.
Proof. unfold Rabs. destruct (Rcase_abs x); intro; lra. Qed.

Lemma beta_bounds x : 1 / 30 <= x <= 3 / 4 ->
  exists b, lookup RN (Tables.Arel_to_beta RN) Tables.Arel_to_beta_xlo Tables.Arel_to_beta_xhi (Tables.Arel_to_beta_tol RN) x = Some b
            /\ 45 / 100 < b < 205 / 100.
Proof.
  intro Hx. destruct (beta_accurate x) as (b & L & A); [lra|]. exists b. split; [exact L|].
  unfold seg_area in A. apply Rabs_le_inv' in A.
  pose proof (sincos_half b) as SC. assert (PI3 : 3 < PI < 4) by (split; interval).
  split.
  - apply Rnot_le_lt. intro Hb.
    assert (S : (b - sin b * cos b) / PI < 258 / 10000).
    { destruct (Rle_dec b (-1)) as [B1|B1].
      - apply Rlt_trans with 0; [|lra]. unfold Rdiv. assert (N0 : b - sin b * cos b < 0) by lra.
        assert (I0 : 0 < / PI) by (apply Rinv_0_lt_compat; lra). nra.
      - assert (Hb' : -1 <= b <= 45 / 100) by lra. interval with (i_bisect b). }
    lra.
  - apply Rnot_le_lt. intro Hb.
    assert (S : 7576 / 10000 < (b - sin b * cos b) / PI).
    { destruct (Rle_dec 4 b) as [B1|B1].
      - apply Rlt_le_trans with (35 / 10 / PI); [interval|]. unfold Rdiv. apply Rmult_le_compat_r; [left; apply Rinv_0_lt_compat; lra|lra].
      - assert (Hb' : 205 / 100 <= b <= 4) by lra. interval with (i_bisect b). }
    lra.
Qed.

Lemma Cvb_val : Constants.Cvb RN = 6 / 10. Proof. reflexivity. Qed.

Lemma beta_val Cvs : 2 / 100 <= Cvs <= 45 / 100 ->
  45 / 100 < Stratified.beta RN Cvs < 205 / 100 /\ StratifiedOk.beta_ok Cvs.
Proof.
  intro HC. assert (HX : 1 / 30 <= Cvs / (6 / 10) <= 3 / 4).
  { split; [apply (Rmult_le_reg_r (6 / 10)); [lra|]|apply (Rmult_le_reg_r (6 / 10)); [lra|]];
    replace (Cvs / (6 / 10) * (6 / 10)) with Cvs by (field; lra); lra. }
  destruct (beta_bounds _ HX) as (b & L & B).
  unfold Stratified.beta, StratifiedOk.beta_ok, in_range, lookup_or_fail. rewrite Cvb_val. toR. rewrite L.
  split; [exact B|]. split; [lra|discriminate].
Qed.

(* ---------- the three friction factors of the force balance: defined whenever their logarithm argument is in (0,1) ---------- *)
Lemma ln_sq_nonzero u : 0 < u < 1 -> ln u ^ 2 <> 0.
Proof.
  intros (H0 & H1). assert (L : ln u < 0) by (rewrite <- ln_1; apply ln_increasing; lra).
  intro Z. replace (ln u ^ 2) with (ln u * ln u) in Z by ring. apply Rmult_integral in Z. lra.
Qed.

Lemma lambda1_ok' DH v eps nu : 0 < DH -> 0 < v -> 0 < nu -> 0 <= eps -> 27 / 100 * eps / DH + c2 (v * DH / nu) < 1 ->
  StratifiedOk.lambda1_ok DH v eps nu.
Proof.
  intros HD Hv Hn He Hs. unfold StratifiedOk.lambda1_ok. cbv zeta. toR. fold (c2 (v * DH / nu)).
  assert (Re : 0 < v * DH / nu) by (apply Rdiv_lt_0_compat; [apply Rmult_lt_0_compat|]; assumption).
  pose proof (c2_pos (v * DH / nu)) as C2. pose proof (Rpower_pos (v * DH / nu) (9 / 10)) as P.
  assert (C1 : 0 <= 27 / 100 * eps / DH) by (apply Rmult_le_pos; [lra|left; apply Rinv_0_lt_compat; exact HD]).
  split; [lra|]. split; [lra|]. split; [split; [exact Re|lra]|]. split; [lra|]. apply ln_sq_nonzero. lra.
Qed.

Lemma lambda12_ok' DH d v nu : 0 < DH -> 0 < v -> 0 < nu -> 0 <= d -> 27 / 100 * d / DH + c2 (v * DH / nu) < 1 ->
  StratifiedOk.lambda12_ok DH d v (0 / 10) nu.
Proof.
  intros HD Hv Hn Hd Hs. unfold StratifiedOk.lambda12_ok. cbv zeta. toR.
  replace ((v - 0 / 10) * DH / nu) with (v * DH / nu) by (field; lra). fold (c2 (v * DH / nu)).
  assert (Re : 0 < v * DH / nu) by (apply Rdiv_lt_0_compat; [apply Rmult_lt_0_compat|]; assumption).
  pose proof (c2_pos (v * DH / nu)) as C2. pose proof (Rpower_pos (v * DH / nu) (9 / 10)) as P.
  assert (C1 : 0 <= 27 / 100 * d / DH) by (apply Rmult_le_pos; [lra|left; apply Rinv_0_lt_compat; exact HD]).
  split; [lra|]. split; [lra|]. split; [split; [exact Re|lra]|]. split; [lra|]. apply ln_sq_nonzero. lra.
Qed.

Lemma lambda12_sf_ok' DH d v eps nu rhol rhos : 0 < DH -> 0 < v -> 0 < d -> 0 < rhol < rhos ->
  StratifiedOk.lambda1_ok DH v eps nu -> StratifiedOk.lambda12_sf_ok DH d v (0 / 10) eps nu rhol rhos.
Proof.
  intros HD Hv Hd Hr L1. unfold StratifiedOk.lambda12_sf_ok. split; [lra|]. cbv zeta. unfold Constants.gravity. toR.
  assert (RS : 0 < (rhos - rhol) / rhol) by (apply Rdiv_lt_0_compat; lra).
  assert (G : 0 < 2 * (980665 / 100000) * DH * ((rhos - rhol) / rhol)) by (apply Rmult_lt_0_compat; [apply Rmult_lt_0_compat; lra|exact RS]).
  pose proof (Rpower_pos (2 * (980665 / 100000) * DH * ((rhos - rhol) / rhol)) (5 / 10)) as P.
  assert (PI0 : 0 < PI) by apply PI_RGT_0.
  assert (M : 0 < rhos * (PI / 6) * d ^ 3 / rhol).
  { apply Rdiv_lt_0_compat; [|lra]. apply Rmult_lt_0_compat; [apply Rmult_lt_0_compat; lra|apply pow_lt; exact Hd]. }
  split; [split; [split; [exact G|lra]|]|].
  - apply Rdiv_lt_0_compat; [lra|exact P].
  - split; [split; [split; [lra|lra]|exact M]|exact L1].
Qed.

(* ---------- geometry of the section above the bed ---------- *)
Section Geometry.
Variables vls Dp Cvs : R.
Hypothesis Hv : 1 / 10 <= vls <= 10.
Hypothesis HD : 1 / 10 <= Dp <= 12 / 10.
Hypothesis HC : 2 / 100 <= Cvs <= 45 / 100.

Let b := Stratified.beta RN Cvs.
Definition A1e : R := PI * (Dp / 2) ^ 2 - PI * (Dp / 2) ^ 2 * (Cvs / Constants.Cvb RN).
Definition Ose : R := (PI - Stratified.beta RN Cvs) * Dp + Dp * sin (Stratified.beta RN Cvs).
Definition DH1e : R := 4 * A1e / Ose.
Definition v1e : R := vls * (PI * (Dp / 2) ^ 2) / A1e.

Lemma geometry : 0 < A1e /\ 0 < Ose /\ Dp / 5 <= DH1e /\ vls <= v1e.
Proof.
  destruct (beta_val Cvs HC) as (B & _). fold b in B.
  assert (PI3 : 314 / 100 < PI < 315 / 100) by (split; interval).
  assert (SB : 0 < sin b <= 1) by (split; [interval|apply SIN_bound]).
  assert (X : 1 / 30 <= Cvs / (6 / 10) <= 3 / 4).
  { split; [apply (Rmult_le_reg_r (6 / 10)); [lra|]|apply (Rmult_le_reg_r (6 / 10)); [lra|]];
    replace (Cvs / (6 / 10) * (6 / 10)) with Cvs by (field; lra); lra. }
  set (x := Cvs / (6 / 10)) in *.
  assert (EA : A1e = PI * (Dp * Dp / 4) * (1 - x)) by (unfold A1e, x; rewrite Cvb_val; field).
  assert (EO : Ose = Dp * (PI - b + sin b)) by (unfold Ose, b; ring).
  assert (D2 : 0 < Dp * Dp / 4) by nra.
  assert (A1 : 0 < A1e) by (rewrite EA; apply Rmult_lt_0_compat; [apply Rmult_lt_0_compat; lra|lra]).
  assert (O1 : 0 < Ose) by (rewrite EO; apply Rmult_lt_0_compat; lra).
  split; [exact A1|]. split; [exact O1|]. split.
  - unfold DH1e. apply (Rmult_le_reg_r Ose); [exact O1|]. replace (4 * A1e / Ose * Ose) with (4 * A1e) by (field; lra).
    rewrite EA, EO.
    (* Dp/5 * Dp * (PI - b + sin b) <= PI * Dp^2 * (1 - x):  (PI - b + sin b)/5 <= (PI + 0.55)/5 <= PI/4 <= PI (1 - x) *)
    assert (K1 : (PI - b + sin b) / 5 <= PI * (1 - x)) by nra.
    assert (DD : 0 < Dp * Dp) by nra.
    replace (Dp / 5 * (Dp * (PI - b + sin b))) with (Dp * Dp * ((PI - b + sin b) / 5)) by field.
    replace (4 * (PI * (Dp * Dp / 4) * (1 - x))) with (Dp * Dp * (PI * (1 - x))) by field.
    apply Rmult_le_compat_l; lra.
  - unfold v1e. apply (Rmult_le_reg_r A1e); [exact A1|].
    replace (vls * (PI * (Dp / 2) ^ 2) / A1e * A1e) with (vls * (PI * (Dp / 2) ^ 2)) by (field; lra).
    rewrite EA. replace (PI * (Dp / 2) ^ 2) with (PI * (Dp * Dp / 4)) by field.
    assert (PD : 0 < PI * (Dp * Dp / 4)) by (apply Rmult_lt_0_compat; lra).
    set (q := PI * (Dp * Dp / 4)) in *.
    assert (NN : 0 <= vls * q * x) by (apply Rmult_le_pos; [apply Rmult_le_pos; lra|lra]).
    replace (vls * (q * (1 - x))) with (vls * q - vls * q * x) by ring. lra.
Qed.
End Geometry.

Lemma c2_small Re : 1400 <= Re -> c2 Re <= 9 / 1000.
Proof.
  intro H. destruct (Req_EM_T Re 1400) as [->|N].
  - unfold c2. interval.
  - apply Rle_trans with (c2 1400); [left; apply c2_decreasing; lra|unfold c2; interval].
Qed.

(* ---------- the fixed-bed model is defined on the envelope ---------- *)
Theorem fb_pressure_loss_ok vls Dp d eps nu rhol rhos Cvs :
  liqE vls Dp eps nu -> 0 < d <= Dp / 4 -> 0 < rhol < rhos -> 2 / 100 <= Cvs <= 45 / 100 ->
  StratifiedOk.fb_pressure_loss_ok vls Dp d eps nu rhol rhos Cvs.
Proof.
  intros (Hv & HD & He & Hn) Hd Hr HC.
  destruct (geometry vls Dp Cvs Hv HD HC) as (A1 & O1 & DH & V1). destruct (beta_val Cvs HC) as (_ & BOK).
  unfold StratifiedOk.fb_pressure_loss_ok, StratifiedOk.areas_ok, StratifiedOk.perimeters_ok, Stratified.areas, Stratified.perimeters.
  cbv zeta beta iota. toR. fold (A1e Dp Cvs). fold (Ose Dp Cvs). fold (DH1e Dp Cvs). fold (v1e vls Dp Cvs).
  set (DH1 := DH1e Dp Cvs) in *. set (v1 := v1e vls Dp Cvs) in *.
  assert (DHp : 1 / 50 <= DH1) by lra. assert (V1p : 0 < v1) by lra. assert (Hnu : 0 < nu) by lra.
  assert (IDH : / DH1 <= 50).
  { replace 50 with (/ (1 / 50)) by field. apply Rinv_le_contravar; lra. }
  assert (RE : 1400 <= v1 * DH1 / nu).
  { apply (Rmult_le_reg_r nu); [lra|]. replace (v1 * DH1 / nu * nu) with (v1 * DH1) by (field; lra).
    assert (1 / 10 * (1 / 50) <= v1 * DH1) by (apply Rmult_le_compat; lra). nra. }
  pose proof (c2_small _ RE) as C2.
  assert (L1 : StratifiedOk.lambda1_ok DH1 v1 eps nu).
  { apply lambda1_ok'; try lra.
    assert (27 / 100 * eps / DH1 <= 27 / 100 * (1 / 10000) * 50).
    { unfold Rdiv at 1. apply Rmult_le_compat; [lra|left; apply Rinv_0_lt_compat; lra|lra|exact IDH]. }
    lra. }
  assert (L12 : StratifiedOk.lambda12_ok DH1 d v1 (0 / 10) nu).
  { apply lambda12_ok'; try lra.
    assert (d / DH1 <= 5 / 4).
    { apply (Rmult_le_reg_r DH1); [lra|]. replace (d / DH1 * DH1) with d by (field; lra). lra. }
    replace (27 / 100 * d / DH1) with (27 / 100 * (d / DH1)) by (field; lra). lra. }
  assert (L12sf : StratifiedOk.lambda12_sf_ok DH1 d v1 (0 / 10) eps nu rhol rhos) by (apply lambda12_sf_ok'; try lra; exact L1).
  rewrite Cvb_val. split; [split; lra|]. split; [exact BOK|]. split; [lra|]. split; [lra|]. split; [exact L1|].
  split; [lra|]. split; [split; assumption|]. split; lra.
Qed.

Theorem fb_Erhg_ok vls Dp d eps nu rhol rhos Cvs :
  liqE vls Dp eps nu -> 0 < d <= Dp / 4 -> 0 < rhol < rhos -> 2 / 100 <= Cvs <= 45 / 100 ->
  StratifiedOk.fb_Erhg_ok vls Dp d eps nu rhol rhos Cvs.
Proof.
  intros HL Hd Hr HC. unfold StratifiedOk.fb_Erhg_ok. split; [lra|]. cbv zeta. split; [apply il_ok; exact HL|].
  split.
  - unfold StratifiedOk.fb_head_loss_ok. split; [apply fb_pressure_loss_ok; assumption|]. cbv zeta.
    unfold Constants.gravity. toR. apply Rgt_not_eq. apply Rmult_lt_0_compat; lra.
  - toR. apply Rgt_not_eq. apply Rmult_lt_0_compat; [apply Rdiv_lt_0_compat; lra|lra].
Qed.

(* ---------- the whole spatial-concentration path ---------- *)
From DHV Require Framework FrameworkOk HeterogeneousOk.

(* the engineering envelope E of the properties (uniform sand, spatial concentration) *)
Definition inE (vls Dp d eps nu rhol rhos Cvs : R) : Prop :=
  liqE vls Dp eps nu /\ 0 < d <= Dp / 4 /\ 99 / 100 <= rhol <= 103 / 100 /\ 2 <= rhos <= 4 /\ 2 / 100 <= Cvs <= 45 / 100.

Theorem Cvs_path_ok (sf sq : bool) vls Dp d eps nu rhol rhos Cvs : inE vls Dp d eps nu rhol rhos Cvs ->
  FrameworkOk.Cvs_Erhg_ok sf sq vls Dp d eps nu rhol rhos Cvs /\
  FrameworkOk.Cvs_Erhg_dict_ok sf sq vls Dp d eps nu rhol rhos Cvs /\
  FrameworkOk.Cvs_regime_ok sf sq vls Dp d eps nu rhol rhos Cvs.
Proof.
  intros (HL & Hd & Hrl & Hrs & HC).
  assert (S : solE Dp d rhol rhos Cvs) by (unfold solE; repeat split; lra).
  assert (K : FrameworkOk.Cvs_Erhg_dict_ok sf sq vls Dp d eps nu rhol rhos Cvs).
  { unfold FrameworkOk.Cvs_Erhg_dict_ok. split; [apply il_ok; exact HL|]. cbv zeta.
    split; [apply fb_Erhg_ok; try assumption; lra|]. split; [exact I|]. split; [apply he_ok; assumption|]. apply ho_ok; assumption. }
  split; [exact K|]. split; [exact K|exact K].
Qed.
