from ._core import curdoc
