#!/venv/bin/python
"""replay.py <replay.json>: re-run the search that produced a replay file and report whether the
recorded violation (same key) still occurs on the current tree.  Exit 1 + VIOLATION line if so."""
import json, os, subprocess, sys, tempfile
r = json.load(open(sys.argv[1]))
pid = r['property']
here = os.path.dirname(os.path.abspath(__file__))
verif = os.path.dirname(os.path.dirname(here))
if r.get('kind') != 'failing-input':
    print(f"{pid}: replay file names what no longer checks (no failing input was found):")
    for b in r.get('no_longer_checks', []):
        print('  ', b['what'], ':', b['detail'][:400])
    print(f"re-run ./check {pid} to see whether it checks now")
    sys.exit(0)
key = r['violation'].get('key')
out = os.path.join(verif, 'build', 'run', f'{pid}-replay.json')
os.makedirs(os.path.dirname(out), exist_ok=True)
env = dict(os.environ)
if pid == 'C17':
    # an event-sequence property: replay exactly the recorded sequences instead of searching again
    seqs = [v['sequence'] for v in [r['violation']] + r.get('all', []) if v.get('sequence')]
    if seqs:
        env['VERIF_C17_SEQS'] = json.dumps(seqs[:20])
subprocess.run(['/venv/bin/python', os.path.join(here, pid + '.py'), '--out', out, '--budget', '2000'], cwd=here, env=env)
res = json.load(open(out))
hits = [v for v in res.get('violations', []) if v.get('key') == key]
if hits:
    print(json.dumps(hits[0], indent=1, default=str))
    print(f'VIOLATION property={pid} replay={sys.argv[1]}')
    sys.exit(1)
print(f'{pid}: the recorded violation ({key}) does not occur on the current tree')
sys.exit(0)
