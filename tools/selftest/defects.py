#!/venv/bin/python
"""defects.py: the failing inputs recorded in DESIGN.md section 6, replayed on $VERIF_REPO (default /repo).
Prints one line per defect: FAIL (defect present) or pass (repaired)."""
import os, sys, math
REPO = os.environ.get('VERIF_REPO', '/repo')
sys.path.insert(0, REPO + '/DHLLDV_viewer'); sys.path.insert(0, REPO + '/src')
from DHLLDV import DHLLDV_framework as fw, SlurryObj, PumpObj
from Wilson import Wilson_Stratified as ws

def show(tag, bad, detail):
    print(f"{tag}: {'FAIL' if bad else 'pass'}  {detail}")

# C02: hindered settling goes complex when the slip ratio lifts Cvs above KC
try:
    v = fw.Cvt_Erhg(0.3519, 0.5899, 0.07119, 4.5e-5, 1.2329e-6, 0.99915, 3.8905, 0.03315)
    show('C02-Shr', isinstance(v, complex) or not math.isfinite(v), f'value {v}')
except Exception as e:
    show('C02-Shr', True, f'{type(e).__name__}: {e}')
# C20: precedence slip in Wilson stratified Vsm, second branch
Dp, d, rl, rs, mu = 0.7398, 1.715e-4, 1.0049, 3.0955, 0.4
cm = ws.Cvr_max(Dp, d, rl, rs); vm = ws.Vsm_max(Dp, d, rl, rs, mu); v = ws.Vsm(Dp, d, rl, rs, mu, 0.6 * cm)
show('C20-Vsm', abs(v - vm) > 0.002 * vm, f'Cvr_max={cm:.4f} Vsm(Cvr_max)={v:.4f} Vsm_max={vm:.4f}')
# C07: grading stale after a Dp edit
s = SlurryObj.Slurry(Dp=0.5, D50=0.3e-3); _ = s.GSD; s.Dp = 1.0
f = SlurryObj.Slurry(Dp=1.0, D50=0.3e-3)
show('C07-Dp', len(s.GSD) != len(f.GSD) or any(abs(a - b) > 1e-12 * abs(b) or abs(s.GSD[a] - f.GSD[b]) > 1e-12 * f.GSD[b] for a, b in zip(sorted(s.GSD), sorted(f.GSD))), f'first fractions {sorted(s.GSD)[0]:.5f} vs fresh {sorted(f.GSD)[0]:.5f}')
s = SlurryObj.Slurry(Dp=0.5, D50=0.12e-3); _ = s.GSD; s.rhos = 3.5
f = SlurryObj.Slurry(Dp=0.5, D50=0.12e-3); f.rhos = 3.5; f.generate_GSD(2.0, 2.72)
show('C07-rhos', any(abs(a - b) > 1e-12 for a, b in zip(sorted(s.GSD), sorted(f.GSD))) or len(s.GSD) != len(f.GSD), f'first fractions {sorted(s.GSD)[0]:.5f} vs regenerated {sorted(f.GSD)[0]:.5f}')
cc = getattr(fw.Cvt_Erhg, 'cache_clear', lambda: None)
# C08: Cvt_Erhg cache ignores the switches and aliases its dict
a = (4.0, 0.5, 0.0005, 4.5e-5, 1.0e-6, 1.0, 2.65, 0.2)
cc(); fw.use_sqrtcx = True; v1 = fw.Cvt_Erhg(*a); fw.use_sqrtcx = False; v2 = fw.Cvt_Erhg(*a)
cc(); v3 = fw.Cvt_Erhg(*a); fw.use_sqrtcx = True
show('C08-switch', v2 != v3, f'after toggle got {v2}, fresh {v3}')
cc(); d1 = fw.Cvt_Erhg(*a, get_dict=True); he = d1['He']; d1['He'] = 99.0; d2 = fw.Cvt_Erhg(*a, get_dict=True)
show('C08-alias', d2['He'] != he, f"He after caller mutation {d2['He']} vs {he}")
# C11: curve-limited pump returns design speed although a lower speed is set
import ExamplePumps, copy
from DHLLDV.DriverObj import Driver
from DHLLDV.DHLLDV_Utils import interpDict
p = copy.copy(ExamplePumps.Ladder_Pump)
p.limited = 'curve'
p.driver = Driver('d', interpDict({0.5: 500.0, 0.6: 600.0, 0.75: 750.0, 0.85: 825.0, 0.95: 852.0, 1.00: 895.0}))
p.gear_ratio = 1 / p.design_speed
p.current_speed = 2.55
Q, H, P, n = p.point(3.0)
show('C11-curve', n > p.current_speed * (1 + 1e-12), f'set speed {p.current_speed} returned speed {n}')
