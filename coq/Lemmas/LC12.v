(* Proofs for C12 (first part): the diameter-at-fraction lookup and the log-linear interpolation used by the
   discretisation. *)
From Coq Require Import Reals List Bool Lra.
From DHV Require Import NumOps RInst Interp Fracs LC18.
Import ListNotations.
Local Open Scope R_scope.

(* get_dx rejects fractions outside (0, 1): the model takes the ValueError branch *)
Lemma get_dx_rejects g f : f <= 0 \/ 1 <= f -> get_dx RN g f = nfail RN E_ValueError.
Proof.
  intro H. unfold get_dx. toR.
  assert (E : orb (Rleb f 0) (Rleb (10 / 10) f) = true).
  { apply orb_true_iff. destruct H; [left|right]; apply Rleb_true; lra. }
  rewrite E. reflexivity.
Qed.

(* at a tabulated fraction it returns the tabulated diameter *)
Lemma get_dx_node g f d : increasing g -> In (f, d) g -> 0 < f < 1 -> get_dx RN g f = d.
Proof.
  intros Hs Hin Hf. unfold get_dx. toR.
  assert (E : orb (Rleb f 0) (Rleb (10 / 10) f) = false).
  { apply orb_false_iff. split; apply Rleb_false; lra. }
  rewrite E, (find_exact_hit g f d Hs Hin). reflexivity.
Qed.

(* the log-linear interpolation between (flow, dlow) and (fnext, dnext) *)
Lemma log10_interp_at_fnext dlow dnext flow fnext : fnext <> flow ->
  log10_interp RN dlow dnext flow fnext fnext = Rlog10 dnext.
Proof. intro H. unfold log10_interp. toR. field. lra. Qed.

Lemma log10_interp_at_flow dlow dnext flow fnext : fnext <> flow ->
  log10_interp RN dlow dnext flow fnext flow = Rlog10 dlow.
Proof. intro H. unfold log10_interp. toR. field. lra. Qed.

Lemma Rlog10_increasing a b : 0 < a < b -> Rlog10 a < Rlog10 b.
Proof.
  intro H. unfold Rlog10. assert (0 < ln 10) by (rewrite <- ln_1; apply ln_increasing; lra).
  apply Rmult_lt_compat_r; [apply Rinv_0_lt_compat; assumption|apply ln_increasing; lra].
Qed.

(* between increasing nodes the interpolated log-diameter increases with the fraction ... *)
Lemma log10_interp_increasing dlow dnext flow fnext f1 f2 :
  0 < dlow < dnext -> flow < fnext -> f1 < f2 ->
  log10_interp RN dlow dnext flow fnext f1 < log10_interp RN dlow dnext flow fnext f2.
Proof.
  intros Hd Hf H12. unfold log10_interp. toR.
  pose proof (Rlog10_increasing _ _ Hd) as L.
  set (A := Rlog10 dnext) in *. set (B := Rlog10 dlow) in *.
  assert (0 < / (fnext - flow)) by (apply Rinv_0_lt_compat; lra).
  assert (X : (A - B) * (fnext - f2) / (fnext - flow) < (A - B) * (fnext - f1) / (fnext - flow)).
  { unfold Rdiv. apply Rmult_lt_compat_r; [assumption|]. apply Rmult_lt_compat_l; lra. }
  lra.
Qed.

(* ... and so does the diameter 10 ** (...) *)
Lemma pow10_increasing x y : x < y -> pow10 RN x < pow10 RN y.
Proof.
  intro H. unfold pow10. toR. unfold Rpower. apply exp_increasing.
  assert (0 < ln 10) by (rewrite <- ln_1; apply ln_increasing; lra). nra.
Qed.

Lemma pow10_log10 d : 0 < d -> pow10 RN (Rlog10 d) = d.
Proof.
  intro H. unfold pow10, Rlog10. toR. unfold Rpower.
  assert (0 < ln 10) by (rewrite <- ln_1; apply ln_increasing; lra).
  replace (ln d / ln 10 * ln 10) with (ln d) by (field; lra). apply exp_ln. exact H.
Qed.

(* interior nodes lie strictly between the two input diameters *)
Lemma interp_between dlow dnext flow fnext f :
  0 < dlow < dnext -> flow < f < fnext ->
  dlow < pow10 RN (log10_interp RN dlow dnext flow fnext f) < dnext.
Proof.
  intros Hd Hf.
  pose proof (log10_interp_increasing dlow dnext flow fnext flow f Hd ltac:(lra) ltac:(lra)) as A.
  pose proof (log10_interp_increasing dlow dnext flow fnext f fnext Hd ltac:(lra) ltac:(lra)) as B.
  rewrite log10_interp_at_flow in A by lra. rewrite log10_interp_at_fnext in B by lra.
  apply pow10_increasing in A. apply pow10_increasing in B.
  rewrite pow10_log10 in A by lra. rewrite pow10_log10 in B by lra. split; assumption.
Qed.

(* the fraction at which the log-linear distribution through (flow, dlow), (fnext, dnext) reaches dmin *)
Definition X_of (dlow dnext flow fnext dmin : R) : R :=
  fnext - (Rlog10 dnext - Rlog10 dmin) * (fnext - flow) / (Rlog10 dnext - Rlog10 dlow).

Lemma X_reaches_dmin dlow dnext flow fnext dmin : 0 < dlow < dnext -> 0 < dmin -> flow < fnext ->
  pow10 RN (log10_interp RN dlow dnext flow fnext (X_of dlow dnext flow fnext dmin)) = dmin.
Proof.
  intros Hd Hm Hf. rewrite <- (pow10_log10 dmin Hm) at 2. f_equal.
  unfold log10_interp, X_of. toR. pose proof (Rlog10_increasing _ _ Hd). field. split; lra.
Qed.
