(* C11 -- pump points obey the affinity laws and never exceed the driver or the set speed.
   Statements only; proofs in Lemmas/LC11.v.  Model: Models/Pump.v (hand-written; run bit-exactly against
   PumpObj.Pump.point on the shipped example pumps in all four limit modes). *)
From Coq Require Import Reals List Bool.
From DHV Require Import NumOps RInst Interp Pump LC11.
Import ListNotations.
Local Open Scope R_scope.

(* every outcome, every limit mode: the flow returned is the flow requested; head is the affinity-law scaling of
   the design QH curve at the RETURNED speed, the current trim and the pumped density; power is the required power
   at the returned speed, which is the affinity-law scaling of the QP curve *)
Theorem C11_affinity : forall (fuel : nat) (root : R) (p : pump (T:=R)) (Q : R) (w : bool) (Q' H P n : R),
  point RN fuel root p Q w = Some (Q', H, P, n) ->
  Q' = Q /\ H = H_aff p Q n w /\ P = power_required RN p Q n w /\ (n <> 0 -> P = P_aff p Q n w).
Proof.
  intros fuel root p Q w Q' H P n E. destruct (LC11.point_affinity fuel root p Q w Q' H P n E) as (A & B & C).
  repeat split; try assumption. intro Hn. rewrite C. apply LC11.power_required_affinity. exact Hn.
Qed.
Print Assumptions C11_affinity.

(* the returned speed equals the set speed whenever the limit mode is none or the driver can supply the required
   power there *)
Theorem C11_unlimited : forall (fuel : nat) (root : R) (p : pump (T:=R)) (Q : R) (w : bool),
  limited p = LNone \/ power_required RN p Q (current_speed p) w <= power_available RN p (current_speed p) ->
  exists H P, point RN fuel root p Q w = Some (Q, H, P, current_speed p).
Proof. exact LC11.point_unlimited. Qed.
Print Assumptions C11_unlimited.

(* torque- and power-limited searches: a speed returned through the loop test has |available - required| < 0.1 kW;
   the only other exits are "not limited" (the set speed) and the assertion n > 1/60 *)
Theorem C11_limited_exit : forall (fuel : nat) (p : pump (T:=R)) (Q : R) (w : bool) (r : R),
  (find_torque_limited_speed RN fuel p Q w = Some r ->
     r = current_speed p \/ -(1 / 10) < power_available RN p r - power_required RN p Q r w < 1 / 10 \/ r = nfail RN 5) /\
  (find_power_limited_speed RN fuel p Q w = Some r ->
     r = current_speed p \/ -(1 / 10) < avail_power p - power_required RN p Q r w < 1 / 10 \/ r = nfail RN 5).
Proof.
  intros fuel p Q w r. split; intro H.
  - destruct (LC11.torque_exit fuel p Q w r H) as [A|[A|A]]; [left; exact A|right; left; apply LC11.within_spec; exact A|right; right; exact A].
  - destruct (LC11.power_exit fuel p Q w r H) as [A|[A|A]]; [left; exact A|right; left; apply LC11.within_spec; exact A|right; right; exact A].
Qed.
Print Assumptions C11_limited_exit.

(* curve-limited search: the result is the set speed, a driver speed below it (the minimum when every speed is
   short of power) or the bracketing root; hence never above the set speed when the root finder answers inside
   its bracket *)
Theorem C11_curve_not_above_set : forall (root : R) (p : pump (T:=R)) (Q : R) (w : bool),
  (let r := find_curve_limited_speed RN root p Q w in
   r = current_speed p \/ In r (candidate_speeds RN p) \/ r = root) /\
  (root <= current_speed p -> find_curve_limited_speed RN root p Q w <= current_speed p).
Proof. intros. split; [apply LC11.curve_result|apply LC11.curve_not_above]. Qed.
Print Assumptions C11_curve_not_above_set.

(* torque- and power-limited searches never return a speed above the set speed (nor a negative one), whatever the
   fuel, for every pump and flow whose required power, on (0, set speed], is positive, does not fall with speed and
   grows at most like n^4 (power mode), resp. whose ratio to the available power does (torque mode: available power
   proportional to n, so P/n must not fall and P/n^5 must not rise).  The affinity law gives P ~ n^3 x QP(Q/n), so
   the premise is a statement about the elasticity of the QP curve only; the search checks it on the shipped pumps.
   Proof: the iterates stay between the mirror images of the balanced and of the over-loaded speeds; the two
   families of bounds meet at the balance point (least upper bound of the balanced speeds). *)
From DHV Require Import LC11b.
Local Open Scope R_scope.
Theorem C11_power_limited_not_above_set : forall (p : pump (T:=R)) (Q : R) (w : bool) (fuel : nat) (r : R),
  let n0 := current_speed p in let Pw := fun n => power_required RN p Q n w in
  0 < n0 -> 0 < avail_power p -> (forall n, 0 < n <= n0 -> 0 < Pw n) ->
  (forall a b, 0 < a -> a <= b -> b <= n0 -> Pw a <= Pw b) ->
  (forall a b, 0 < a -> a <= b -> b <= n0 -> Pw b * a ^ 4 <= Pw a * b ^ 4) ->
  find_power_limited_speed RN fuel p Q w = Some r -> 0 <= r <= n0.
Proof. exact LC11b.power_limited_not_above. Qed.
Print Assumptions C11_power_limited_not_above_set.

Theorem C11_torque_limited_not_above_set : forall (p : pump (T:=R)) (Q : R) (w : bool) (fuel : nat) (r : R),
  let n0 := current_speed p in let Pw := fun n => power_required RN p Q n w in let Pa := fun n => power_available RN p n in
  0 < n0 -> (forall n, 0 < n <= n0 -> 0 < Pw n /\ 0 < Pa n) ->
  (forall a b, 0 < a -> a <= b -> b <= n0 -> Pa b * Pw a <= Pa a * Pw b) ->
  (forall a b, 0 < a -> a <= b -> b <= n0 -> Pa a * Pw b * a ^ 4 <= Pa b * Pw a * b ^ 4) ->
  find_torque_limited_speed RN fuel p Q w = Some r -> 0 <= r <= n0.
Proof. exact LC11b.torque_limited_not_above. Qed.
Print Assumptions C11_torque_limited_not_above_set.

(* TERMINATION of the torque- and power-limited searches in the driver-limited case, for every pump and flow whose
   headroom ratio q(n) = Pavail(n) / P(n) falls, per unit of ln n, by at least delta and at most 4 - delta on
   (0, set speed] (0 < delta <= 2; pure affinity scaling is delta = 3 - 0 = 3 for power mode's q ~ n^-3, i.e. any
   delta <= 1 works there), whose required power is bounded by M, and whose floor n0 q(n0)^(1/delta) lies above the
   asserted minimum 1/60 Hz: there is a pass count K such that with any fuel above K the model's loop returns a speed
   r -- through its loop test, not through the assertion -- with 1/60 < r <= n0 and |Pavail(r) - P(r)| < 0.1 kW.
   PA p tq is the available power of the mode (tq = true: torque, Pavail = power_available; false: avail_power). *)
From DHV Require Import LC11c.
Theorem C11_limited_search_terminates : forall (p : pump (T:=R)) (Q : R) (w tq : bool) (delta M : R),
  let n0 := current_speed p in let Pw := fun n => power_required RN p Q n w in let q := fun n => PA p tq n / Pw n in
  0 < n0 -> 0 < delta <= 2 -> (forall n, 0 < n <= n0 -> 0 < Pw n <= M) -> (forall n, 0 < n <= n0 -> 0 < PA p tq n) ->
  (forall a b, 0 < a -> a <= b -> b <= n0 -> ln (q b) - ln (q a) <= - delta * (ln b - ln a)) ->
  (forall a b, 0 < a -> a <= b -> b <= n0 -> - (4 - delta) * (ln b - ln a) <= ln (q b) - ln (q a)) ->
  PA p tq n0 < Pw n0 -> 1 / 60 < n0 * exp (ln (q n0) / delta) ->
  exists K : nat, forall fuel, (K < fuel)%nat ->
    exists r, (if tq then find_torque_limited_speed RN fuel p Q w else find_power_limited_speed RN fuel p Q w) = Some r /\
              1 / 60 < r <= n0 /\ - (1 / 10) < PA p tq r - Pw r < 1 / 10.
Proof. exact LC11c.limited_search_terminates. Qed.
Print Assumptions C11_limited_search_terminates.

(* the analytic premises are satisfiable (flat QP curve: P = 2 n^3, constant available power 1, set speed 1) *)
Theorem C11_termination_premises_nonvacuous :
  let q := fun n : R => / (2 * n ^ 3) in
  (forall n, 0 < n <= 1 -> 0 < q n) /\
  (forall a b, 0 < a -> a <= b -> b <= 1 -> ln (q b) - ln (q a) <= - 1 * (ln b - ln a)) /\
  (forall a b, 0 < a -> a <= b -> b <= 1 -> - (4 - 1) * (ln b - ln a) <= ln (q b) - ln (q a)) /\
  q 1 < 1 /\ 1 / 60 < 1 * exp (ln (q 1) / 1).
Proof. exact LC11c.contract_premises_example. Qed.
Print Assumptions C11_termination_premises_nonvacuous.

(* the shape premise of the power-limited clause, discharged from the TABLE: if the QP table starts at flow 0 (or
   below), has at least two points, and its powers are positive, increasing, with elasticity at most 3 at the left end
   of every segment ([segs_ok]: a decidable condition on the table's numbers), then for every positive flow, trim,
   set speed, density and nameplate power the power-limited search never leaves (0, set speed] *)
From DHV Require Import LPumpShape LPumpsShipped ExamplePumps.
Theorem C11_power_limited_not_above_set_by_shape : forall (p : pump (T:=R)) (Q : R) (w : bool) (x0 y0 : R) (tl : list (R * R)),
  QP p = (x0, y0) :: tl -> x0 <= 0 -> tl <> [] -> segs_ok (QP p) ->
  0 < design_speed p -> 0 < design_impeller p -> 0 < current_impeller p -> 0 < rho p w -> 0 < Q ->
  forall (fuel : nat) (r : R), 0 < current_speed p -> 0 < avail_power p ->
  find_power_limited_speed RN fuel p Q w = Some r -> 0 <= r <= current_speed p.
Proof. exact LPumpShape.power_limited_not_above_shape. Qed.
Print Assumptions C11_power_limited_not_above_set_by_shape.

(* ... and the shipped ladder pump and main pump have that shape (their tables are regenerated from
   DHLLDV_viewer/ExamplePumps.py on every run and compared number by number with the objects the module builds) *)
Theorem C11_shipped_pumps : forall (p : pump (T:=R)) (Q : R) (w : bool) (fuel : nat) (r : R),
  QP p = Ladder_Pump_QP RN \/ QP p = Main_Pump_QP RN ->
  0 < design_speed p -> 0 < design_impeller p -> 0 < current_impeller p -> 0 < rho p w -> 0 < Q ->
  0 < current_speed p -> 0 < avail_power p ->
  find_power_limited_speed RN fuel p Q w = Some r -> 0 <= r <= current_speed p.
Proof. exact LPumpsShipped.shipped_power_limited_not_above. Qed.
Print Assumptions C11_shipped_pumps.

(* the two smaller shipped pumps do not: their power falls from shut-off to the first positive flow *)
Theorem C11_small_pumps_not_rising : ~ segs_ok (Ladder_Pump600_QP RN) /\ ~ segs_ok (Main_Pump500_QP RN).
Proof. exact (conj LPumpsShipped.Ladder_Pump600_QP_not_rising LPumpsShipped.Main_Pump500_QP_not_rising). Qed.
Print Assumptions C11_small_pumps_not_rising.
