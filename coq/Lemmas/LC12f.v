(* C12, closed corollary: on EVERY grading create_fracs builds from the slurry object's D15/D50/D85 input the
   diameter-at-fraction lookup is strictly increasing over the whole of (0,1): all generated diameters are positive
   (they lie above the start diameter, which is the pseudo-liquid limit or a power of ten), so LMono applies. *)
From Coq Require Import Reals List Lra Lia Sorted.
From DHV Require Import NumOps RInst Fracs LC12 LC12b LC12c LC12d LC12e LMono.
From DHV Require Framework.
Import ListNotations.
Local Open Scope R_scope.

Lemma pow10_pos x : 0 < pow10 RN x.
Proof. unfold pow10. toR. unfold Rpower. apply exp_pos. Qed.

Lemma body_pos dmin flow dlow fnext dnext rest n :
  both_increasing ((flow, dlow) :: (fnext, dnext) :: rest) -> 0 < dlow ->
  Forall (fun p => fst p <> 0) ((fnext, dnext) :: rest) -> 0 < dmin < dnext -> 0 < fnext ->
  Forall (fun p => 0 < snd p) (body dmin flow dlow fnext dnext rest n).
Proof.
  intros Hin Hd Hnz Hm Hp. pose proof (start_ok dmin flow dlow fnext dnext rest Hin Hd Hnz Hm Hp) as OK.
  destruct (all_nodes_increasing _ n _ _ OK) as [_ I2].
  assert (S : 0 < start_d dmin flow dlow fnext dnext).
  { unfold start_d. destruct (Rltb 0 _); [lra|apply pow10_pos]. }
  unfold body. apply Forall_app. split.
  - unfold start_nodes. destruct (Rltb 0 _); [constructor; [cbn [snd]; lra|constructor]|constructor].
  - apply Forall_forall. intros p Hp'. destruct (I2 p Hp'). lra.
Qed.

Lemma below_last (l : gsdR) t : both_increasing (l ++ [t]) -> forall p, In p l -> snd p < snd t.
Proof.
  induction l as [|q l IH]; intros H p Hp; [destruct Hp|].
  cbn [app] in H. apply StronglySorted_inv in H. destruct H as [H1 H2]. destruct Hp as [<-|Hp].
  - rewrite Forall_forall in H2. destruct (H2 t) as [_ B]; [apply in_or_app; right; left; reflexivity|exact B].
  - exact (IH H1 p Hp).
Qed.

Theorem three_point_get_dx_increasing d15 d50 d85 Dp nu rhol rhos :
  0 < d15 < d50 /\ d50 < d85 -> 0 < Framework.pseudo_dlim RN Dp nu rhol rhos < d50 ->
  let res := create_fracs RN [(15 / 100, d15); (50 / 100, d50); (85 / 100, d85)] Dp nu rhol rhos 10 in
  Forall (fun p => 0 < snd p) res /\
  forall f1 f2, 0 < f1 -> f1 < f2 -> f2 < 1 -> get_dx RN res f1 < get_dx RN res f2.
Proof.
  intros Hd Hm. cbv zeta.
  destruct (body_has_two d15 d50 d85 Dp nu rhol rhos) as (a & b & HL).
  destruct (three_point_structure d15 d50 d85 Dp nu rhol rhos Hd Hm a b HL) as (top & E & BI & _ & I50 & _ & Len).
  rewrite E.
  assert (Hin : both_increasing [(15 / 100, d15); (50 / 100, d50); (85 / 100, d85)]).
  { repeat constructor; cbn [fst snd]; lra. }
  assert (Hnz : Forall (fun p : R * R => fst p <> 0) [(50 / 100, d50); (85 / 100, d85)]) by (repeat constructor; cbn [fst]; lra).
  pose proof (body_pos (Framework.pseudo_dlim RN Dp nu rhol rhos) (15 / 100) d15 (50 / 100) d50 [(85 / 100, d85)] 4 Hin
                ltac:(lra) Hnz Hm ltac:(lra)) as BP.
  assert (P : Forall (fun p : R * R => 0 < snd p) (body (Framework.pseudo_dlim RN Dp nu rhol rhos) (15 / 100) d15 (50 / 100) d50 [(85 / 100, d85)] 4 ++ [top])).
  { apply Forall_app. split; [exact BP|]. constructor; [|constructor].
    pose proof (below_last _ top BI _ I50) as B. cbn [snd] in B. lra. }
  split; [exact P|].
  intros f1 f2 H1 H2 H3. apply get_dx_increasing; [exact BI|exact P| |exact H1|exact H2|exact H3].
  rewrite Len. lia.
Qed.
