(* Proofs for C16: what a passed validation guarantees, and that each listed structural fault is answered with
   InvalidExcelError (never another exception class, never a silent load). *)
From Coq Require Import Reals List Bool String Arith Lia.
From DHV Require Import NumOps RInst Excel.
Import ListNotations.
Local Open Scope string_scope.

Notation wbR := (workbook (T:=R)).
Notation sheetR := (sheet (T:=R)).

(* what a well-formed field looks like *)
Definition field_ok (s : sheetR) (f : string * ftype) : Prop :=
  match snd f with
  | FStr => exists c, assoc (fst f) (s_names s) = Some (Single c)
  | FFloat => exists x, assoc (fst f) (s_names s) = Some (Single (CNum x))
  | FTable cols => exists h rows hd, assoc (fst f) (s_names s) = Some (Range (h :: rows)) /\ header_of h = ROk hd /\
                     forall words, In words cols -> List.length (filter (col_matches words) hd) = 1%nat
  end.

Lemma validate_field_ok s f : validate_field s f = ROk tt -> field_ok s f.
Proof.
  unfold validate_field, field_ok, get_range_value. destruct f as [nm ty]. cbn [fst snd].
  destruct ty as [| |cols].
  - destruct (assoc nm (s_names s)) as [[c|rows]|]; intro H; try discriminate H. eauto.
  - destruct (assoc nm (s_names s)) as [[c|rows]|]; intro H; try discriminate H.
    destruct c as [x|t|]; try discriminate H. eauto.
  - destruct (assoc nm (s_names s)) as [[c|[|h rows]]|]; intro H; try discriminate H.
    unfold bind in H. destruct (header_of h) as [hd| |e] eqn:Hh; try discriminate H.
    destruct (forallb _ cols) eqn:F; try discriminate H.
    exists h, rows, hd. split; [reflexivity|]. split; [exact Hh|].
    intros words Hin. rewrite forallb_forall in F. specialize (F words Hin). apply Nat.eqb_eq in F. exact F.
Qed.

Lemma validate_fields_ok s : forall fs, validate_fields s fs = ROk tt -> forall f, In f fs -> field_ok s f.
Proof.
  induction fs as [|g fs IH]; intros H f Hin; [inversion Hin|].
  cbn [validate_fields] in H. unfold bind in H. destruct (validate_field s g) as [[]| |e] eqn:V; try discriminate H.
  destruct Hin as [<-|Hin]; [apply validate_field_ok; exact V|apply IH; assumption].
Qed.

Lemma validate_sheets_ok : forall wb : wbR, validate_sheets wb = ROk tt ->
  forall s t, In s wb -> types_of (s_title s) = [t] -> forall f, In f (fields t) -> field_ok s f.
Proof.
  induction wb as [|s0 wb IH]; intros H s t Hin Ht f Hf; [inversion Hin|].
  cbn [validate_sheets] in H. unfold bind in H.
  destruct (match types_of (s_title s0) with [t0] => validate_fields s0 (fields t0) | _ => ROk tt end) as [[]| |e] eqn:V; try discriminate H.
  destruct Hin as [<-|Hin]; [|exact (IH H s t Hin Ht f Hf)].
  rewrite Ht in V. exact (validate_fields_ok s0 (fields t) V f Hf).
Qed.

Definition count_type (t : stype) (wb : wbR) : nat :=
  List.length (filter (fun s => containsb (stype_word t) (lower (s_title s))) wb).

(* T1: a passed validation means: exactly one pipeline and one slurry sheet, and every typed sheet has every
   required field in the required shape *)
Theorem validation_sound (wb : wbR) : validate wb = ROk tt ->
  count_type TPipeline wb = 1%nat /\ count_type TSlurry wb = 1%nat /\
  forall s t, In s wb -> types_of (s_title s) = [t] -> forall f, In f (fields t) -> field_ok s f.
Proof.
  unfold validate. destruct (forallb _ all_types) eqn:F; [|discriminate].
  intro H. cbn [forallb all_types required negb orb] in F.
  repeat (apply andb_true_iff in F; destruct F as [? F]).
  split; [apply Nat.eqb_eq; assumption|]. split; [apply Nat.eqb_eq; assumption|].
  apply validate_sheets_ok. exact H.
Qed.

(* ---- the listed faults ---- *)
(* a required sheet missing (or present twice) *)
Theorem missing_required_sheet (wb : wbR) t : required t = true -> count_type t wb <> 1%nat -> validate wb = RInvalid.
Proof.
  intros Hr Hc. unfold validate.
  assert (F : forallb (fun t0 => orb (negb (required t0))
               (Nat.eqb (List.length (filter (fun s => containsb (stype_word t0) (lower (s_title s))) wb)) 1)) all_types = false).
  { apply not_true_is_false. intro A. rewrite forallb_forall in A.
    assert (In t all_types) by (destruct t; cbn; tauto). specialize (A t H). rewrite Hr in A. cbn [negb orb] in A.
    apply Nat.eqb_eq in A. apply Hc. exact A. }
  rewrite F. reflexivity.
Qed.

(* the single-value field checks, in isolation: a missing name, a range in place of a cell, a blank or a string in a
   numeric field are each answered with Invalid, never with another exception *)
Theorem bad_single_field (s : sheetR) nm :
  (assoc nm (s_names s) = None -> validate_field s (nm, FStr) = RInvalid /\ validate_field s (nm, FFloat) = RInvalid) /\
  (forall rows, assoc nm (s_names s) = Some (Range rows) -> validate_field s (nm, FFloat) = RInvalid) /\
  (assoc nm (s_names s) = Some (Single CBlank) -> validate_field s (nm, FFloat) = RInvalid) /\
  (forall t, assoc nm (s_names s) = Some (Single (CStr t)) -> validate_field s (nm, FFloat) = RInvalid).
Proof.
  unfold validate_field, get_range_value. cbn [fst snd].
  repeat split; intros; rewrite H; reflexivity.
Qed.

(* a table: missing name; a required column missing or duplicated (all header cells being text) *)
Theorem bad_table (s : sheetR) nm cols :
  (assoc nm (s_names s) = None -> validate_field s (nm, FTable cols) = RInvalid) /\
  (forall h rows hd words, assoc nm (s_names s) = Some (Range (h :: rows)) -> header_of h = ROk hd -> In words cols ->
     List.length (filter (col_matches words) hd) <> 1%nat -> validate_field s (nm, FTable cols) = RInvalid).
Proof.
  unfold validate_field. cbn [fst snd]. split.
  - intro H. rewrite H. reflexivity.
  - intros h rows hd words H Hh Hin Hc. rewrite H. unfold bind. rewrite Hh.
    assert (F : forallb (fun w => Nat.eqb (List.length (filter (col_matches w) hd)) 1) cols = false).
    { apply not_true_is_false. intro A. rewrite forallb_forall in A. specialize (A words Hin). apply Nat.eqb_eq in A. contradiction. }
    rewrite F. reflexivity.
Qed.

(* validation never answers a bad field with a FOREIGN exception as long as table headers are text *)
Definition headers_text (s : sheetR) (t : stype) : Prop :=
  forall nm cols, In (nm, FTable cols) (fields t) ->
    match assoc nm (s_names s) with
    | Some (Range (h :: _)) => exists hd, header_of h = ROk hd
    | Some (Range []) | Some (Single _) => False
    | None => True
    end.

Lemma validate_field_no_other s t f : headers_text s t -> In f (fields t) -> forall e, validate_field s f <> ROther e.
Proof.
  intros HT Hin e. unfold validate_field, get_range_value. destruct f as [nm ty]. cbn [fst snd].
  destruct ty as [| |cols].
  - destruct (assoc nm (s_names s)) as [[c|rows]|]; discriminate.
  - destruct (assoc nm (s_names s)) as [[[x|tx|]|rows]|]; discriminate.
  - specialize (HT nm cols Hin). destruct (assoc nm (s_names s)) as [[c|[|h rows]]|]; try contradiction; try discriminate.
    destruct HT as [hd Hh]. unfold bind. rewrite Hh. destruct (forallb _ cols); discriminate.
Qed.

(* the pipe table naming a pump that has no tab: InvalidExcelError *)
Theorem dangling_pump (pumps : list (string * apump (T:=R))) nm rest r nc dc lc kc zc :
  nth_cell r nc = CStr nm -> containsb "pump" (lower nm) = true ->
  assoc (remove_suffix "pump" (lower nm)) (rev pumps) = None ->
  pipe_rows (r :: rest) pumps nc dc lc kc zc = RInvalid.
Proof. intros H1 H2 H3. cbn [pipe_rows]. rewrite H1, H2, H3. reflexivity. Qed.

(* after a passed validation the loader's reads of validated single-value fields cannot fail *)
Theorem validated_reads_succeed (wb : wbR) s t nm : validate wb = ROk tt -> In s wb -> types_of (s_title s) = [t] ->
  (In (nm, FFloat) (fields t) -> exists x, fnum s nm = ROk x) /\
  (In (nm, FStr) (fields t) -> exists str, fstr s nm = ROk str).
Proof.
  intros HV Hs Ht. destruct (validation_sound wb HV) as (_ & _ & FO). split; intro Hin.
  - destruct (FO s t Hs Ht _ Hin) as [x E]. cbn [fst snd] in E. exists x. unfold fnum, get_range_value, bind. rewrite E. reflexivity.
  - destruct (FO s t Hs Ht _ Hin) as [c E]. cbn [fst snd] in E. exists (to_str c). unfold fstr, get_range_value, bind. rewrite E. reflexivity.
Qed.
