(* C13 -- the stationary-deposit limit is the true fixed-bed / sliding-bed crossing.
   Statements only; proofs in Lemmas/LC13.v; stratified.vls_FBSB is regenerated each run (its early-return loop is
   translated to a function returning (value, converged)). *)
From Coq Require Import Reals.
From DHV Require Import NumOps RInst LC13.
From DHV Require Constants Stratified.
Local Open Scope R_scope.

(* whenever the search reports success, at the returned speed the fixed-bed excess gradient equals the
   sliding-friction coefficient within the tolerance e (any budget, any tolerance, any input) *)
Theorem C13_exit : forall (Dp d eps nu rhol rhos Cvs : R) (max_steps : nat) (e v : R),
  Stratified.vls_FBSB_full RN Dp d eps nu rhol rhos Cvs max_steps e = (v, true) ->
  Rabs (Stratified.fb_Erhg RN v Dp d eps nu rhol rhos Cvs - Constants.musf RN) < e.
Proof. exact LC13.exit. Qed.
Print Assumptions C13_exit.

(* with the default tolerance that is 0.1 % of musf: ten times tighter than the 1 % the property asks *)
Theorem C13_exit_default : forall (Dp d eps nu rhol rhos Cvs : R) (max_steps : nat) (v : R),
  Stratified.vls_FBSB_full RN Dp d eps nu rhol rhos Cvs max_steps (Stratified.vls_FBSB_default_e RN) = (v, true) ->
  Rabs (Stratified.fb_Erhg RN v Dp d eps nu rhol rhos Cvs - Constants.musf RN) < Constants.musf RN / 1000.
Proof. exact LC13.exit_default. Qed.
Print Assumptions C13_exit_default.

(* the public function returns the value of that same run; the documented budget is 20 steps, tolerance musf/1000 *)
Theorem C13_value_and_defaults : forall (Dp d eps nu rhol rhos Cvs : R) (n : nat) (e : R),
  Stratified.vls_FBSB RN Dp d eps nu rhol rhos Cvs n e = fst (Stratified.vls_FBSB_full RN Dp d eps nu rhol rhos Cvs n e) /\
  Stratified.vls_FBSB_default_max_steps RN = 20%nat /\ Stratified.vls_FBSB_default_e RN = Constants.musf RN / 1000.
Proof. intros. split; [reflexivity|exact LC13.defaults]. Qed.
Print Assumptions C13_value_and_defaults.

(* uniqueness of the crossing, given that the fixed-bed excess gradient increases with line speed (that
   monotonicity is C04's partial clause) *)
Theorem C13_unique_given_monotone : forall (f : R -> R) (c a b : R),
  (forall x y, x < y -> f x < f y) -> f a = c -> f b = c -> a = b.
Proof. exact LC13.crossing_unique. Qed.
Print Assumptions C13_unique_given_monotone.

(* quantitative form: where the fixed-bed excess gradient rises at least at the rate m per m/s (the same monotonicity
   premise, with a rate), a successful search returns a speed within e/m of the one true crossing *)
Theorem C13_exit_near_crossing : forall (Dp d eps nu rhol rhos Cvs : R) (n : nat) (e v m x : R),
  0 < m ->
  (forall a b, a < b -> m * (b - a) <= Stratified.fb_Erhg RN b Dp d eps nu rhol rhos Cvs - Stratified.fb_Erhg RN a Dp d eps nu rhol rhos Cvs) ->
  Stratified.fb_Erhg RN x Dp d eps nu rhol rhos Cvs = Constants.musf RN ->
  Stratified.vls_FBSB_full RN Dp d eps nu rhol rhos Cvs n e = (v, true) ->
  Rabs (v - x) < e / m.
Proof. exact LC13.exit_near_crossing. Qed.
Print Assumptions C13_exit_near_crossing.

Example C13_rate_premise_nonvacuous : exists (f : R -> R) (m : R), 0 < m /\ forall a b, a < b -> m * (b - a) <= f b - f a.
Proof. exact LC13.rate_premise_nonvacuous. Qed.
Print Assumptions C13_rate_premise_nonvacuous.
