#!/venv/bin/python
"""corr_oppoint.py: correspondence of Models/OpPoint.v with Pipeline.find_operating_point: the real method is run on
pipelines whose system / pump heads are cheap synthetic curves (so thousands of shapes can be covered: crossing,
tangent, no crossing, jump, flat, kinked, a second crossing left of qimin, pump tables with a finite range that raise
IndexError outside it); every evaluation of the head gap is recorded per phase (feasibility test, unbracketed secant
search, the test at the largest flow, bracketing solver, residual test); the model is replayed on the recorded gap table
of the secant phase, the set of flows at which the evaluation raised, and the bracketing solver's answer (an oracle);
outcome, root and the sequence of flows visited by the secant search are compared bit for bit."""
import argparse
import math
import random
import sys
import warnings

from common import Driver, Stats, check_repo_import, hx, py_outcome, seed, write_json
from corr_slurry import compare


def main():
    ap = argparse.ArgumentParser()
    ap.add_argument('--out', required=True)
    ap.add_argument('--n', type=int, default=300)
    a = ap.parse_args()
    check_repo_import()
    from DHLLDV import PipeObj
    warnings.simplefilter('ignore')
    rng = random.Random(seed())
    st = Stats()
    st.ulp = 0
    reqs, expect = [], []
    dist = {}
    import scipy.optimize as so
    orig_rs = so.root_scalar
    for i in range(a.n):
        shape = rng.choice(['crossing', 'crossing', 'steep', 'tangent', 'none', 'jump', 'flat', 'infeasible', 'kinked', 'kinked', 'left', 'cliff'])
        A, B = rng.uniform(5, 60), rng.uniform(0.5, 20)
        C, D_ = rng.uniform(20, 120), rng.uniform(0.5, 15)
        qimin = rng.uniform(0.2, 1.5)
        qlast = qimin + rng.uniform(0.5, 6)
        if rng.random() < 0.06:      # the minimum-friction flow at (or beyond) the largest tabulated flow
            qlast = rng.choice([qimin, qimin * rng.uniform(0.7, 1.0)])
        jump_at = rng.uniform(qimin, qlast)
        # a pump / driver table of finite range: evaluations outside it raise IndexError, as interpDict does
        limited_range = rng.random() < 0.45
        q_hi_tab = max(qlast, qimin) * rng.uniform(1.0, 1.6)      # the feasibility test at qimin and the test at qlast stay inside the table
        kink = rng.uniform(5, 80)

        def sys_head(q):
            if shape == 'flat':
                return A
            if shape == 'left':      # a bump left of qimin: a second crossing the search must not return
                return A + B * (q - qimin) ** 2 + 0.8 * C * math.exp(-((q - 0.3 * qimin) / (0.2 * qimin)) ** 2)
            return A + B * (q - qimin) ** 2 + (0.3 * B / max(q, 1e-3) if shape == 'steep' else 0.0)

        def pump_head(q):
            if limited_range and (q < 0 or q > q_hi_tab):
                raise IndexError(f'Key {q} out of range (0.0 - {q_hi_tab})')
            if shape == 'none':
                return sys_head(q) + 1.0 + 0.1 * q
            if shape == 'infeasible':
                return sys_head(qimin) - 1.0 - D_ * q
            h = C - D_ * q * q
            if shape == 'tangent':
                h = sys_head(q) + (q - (qimin + qlast) / 2) ** 2 * 3
            if shape == 'jump' and q > jump_at:
                h -= 25.0
            if shape == 'kinked' and q > jump_at:       # continuous, but the slope changes abruptly (a torque limit)
                h -= kink * (q - jump_at) ** 0.35
            if shape == 'cliff' and q > jump_at:        # continuous and very steep
                h -= kink * 40 * (q - jump_at)
            return h
        events = []          # (phase, q, gap | None when the evaluation raised)
        phase = ['feasibility']
        bracket = {}
        pl = PipeObj.Pipeline.__new__(PipeObj.Pipeline)
        pl.qimin = lambda flow_list, precision=0.02: qimin

        def csh(q):
            q = float(q)
            try:
                hs, hp = sys_head(q), pump_head(q)
            except IndexError:
                events.append((phase[0], q, None, None, None))
                raise
            events.append((phase[0], q, hs - hp, hs, hp))
            return (hs, 0.0, 0.0, hp)
        pl.calc_system_head = csh

        def rs(f, *args, **kw):
            if 'bracket' in kw:
                phase[0] = 'bracket'
                try:
                    r = orig_rs(f, *args, **kw)
                    bracket['conv'], bracket['root'] = bool(r.converged), float(r.root)
                    return r
                finally:
                    phase[0] = 'residual'
            phase[0] = 'secant'
            try:
                return orig_rs(f, *args, **kw)
            finally:
                phase[0] = 'qlast'
        so.root_scalar = rs
        try:
            o = py_outcome(pl.find_operating_point, [0.1, qlast])
        finally:
            so.root_scalar = orig_rs
        hs0, hp0 = sys_head(qimin), pump_head(qimin)
        sec = [e for e in events if e[0] == 'secant']
        ql = [e for e in events if e[0] == 'qlast']
        table = [(q, g) for (_, q, g, _, _) in sec + ql if g is not None]
        bad = [q for (_, q, g, _, _) in sec + ql if g is None]
        res_ev = [e for e in events if e[0] == 'residual']
        if bracket and res_ev and res_ev[-1][2] is not None:
            bconv, broot, hs_b, hp_b = bracket['conv'], bracket['root'], res_ev[-1][3], res_ev[-1][4]
        else:
            bconv, broot, hs_b, hp_b = False, 0.0, 1.0, 0.0
        flat = [str(len(table))]
        for q, g in table:
            flat += [hx(q), hx(g)]
        flat += [str(len(bad))] + [hx(q) for q in bad]
        flat += ['1' if bconv else '0', hx(broot), hx(hs_b), hx(hp_b)]
        reqs.append(('OpPoint.find', [hx(qimin), hx(qlast), hx(hs0), hx(hp0)] + flat))
        if o[0] == 'ok':
            want = ['root', float(o[1])]
        else:
            want = [o[1]]
        want += ['@visited', str(len(sec))] + [q for (_, q, _, _, _) in sec]
        expect.append(({'shape': shape, 'qimin': qimin, 'qlast': qlast, 'coeffs': [A, B, C, D_], 'jump_at': jump_at, 'kink': kink,
                        'limited_range': limited_range, 'q_hi_tab': q_hi_tab}, want))
        path = 'infeasible' if not sec else ('secant' if not ql else ('bracket' if bracket else 'no-crossing-at-qlast'))
        k = shape + ':' + path + ':' + ('root' if o[0] == 'ok' else o[1]) + (':IndexError-swallowed' if any(g is None for (_, _, g, _, _) in sec) else '')
        dist[k] = dist.get(k, 0) + 1
    replies = Driver().batch(reqs)
    for (inp, want), rep in zip(expect, replies):
        st.evaluations += 1
        key = repr(inp)
        st.distinct.add(key)
        if rep[0] != 'ok':
            st.disagree.append({'input': inp, 'python': [x.hex() if isinstance(x, float) else x for x in want][:10], 'model': rep})
            continue
        c = compare(want, rep[1])
        if c == 'exact':
            st.agree += 1
            st.nontrivial.add(key)
        else:
            st.disagree.append({'input': inp, 'python': [x.hex() if isinstance(x, float) else x for x in want][:12], 'model': rep[1][:12]})
        if len(st.samples) < 3 and st.evaluations % 97 == 1:
            st.samples.append({'input': inp, 'outcome': want[:2]})
    res = {'ok': not st.disagree, 'evaluations': st.evaluations, 'agree_bit_exact': st.agree, 'agree_on_error': 0,
           'distinct': len(st.distinct), 'distinct_nontrivial': len(st.nontrivial), 'disagreements': st.disagree[:8],
           'n_disagreements': len(st.disagree), 'distribution': dist, 'samples': st.samples, 'seed': seed(), 'wall_s': st.wall()}
    write_json(a.out, res)
    print(f"corr_oppoint: {st.evaluations} evaluations, {st.agree} bit-exact, {len(st.disagree)} disagreements")
    sys.exit(0 if not st.disagree else 1)


if __name__ == '__main__':
    main()
