#!/venv/bin/python
"""corr_pump.py: correspondence of Models/Pump.v with PumpObj.Pump.point / power_required / power_available on the
shipped example pumps: flows 0.02-1.0 x curve range, set speeds 0.6-1.0 x design, trims 0.8-1.0, available power
0.3-1.5 x nameplate, the four limit modes, gear ratios, driver curves, water/slurry.  The value scipy's bracketing
root finder returned (curve mode) is recorded and handed to the model as its oracle.  Also checks that point()
leaves the pump's __dict__ unchanged."""
import argparse
import copy
import random
import signal
import sys

from common import Driver, Stats, check_repo_import, hx, py_outcome, seed, write_json
from corr_slurry import compare


def flat(d):
    out = [str(len(d))]
    for k in sorted(d):
        out += [hx(k), hx(dict.__getitem__(d, k))]
    return out


def gen_pump(rng, ExamplePumps, PumpObj, Driver_, interpDict, SlurryObj):
    names = [n for n in dir(ExamplePumps) if isinstance(getattr(ExamplePumps, n), PumpObj.Pump)]
    base = getattr(ExamplePumps, rng.choice(names))
    p = copy.copy(base)
    mode = rng.choice(['torque', 'power', 'curve', 'None'])
    p.limited = mode
    p.avail_power = base.avail_power * rng.uniform(0.3, 1.5)
    if mode == 'curve':
        shape = rng.choice(['linear', 'flat-top', 'steep-low'])
        pts = {'linear': [(0.5, 0.5), (0.6, 0.6), (0.75, 0.75), (0.85, 0.85), (0.95, 0.95), (1.0, 1.0)],
               'flat-top': [(0.5, 0.55), (0.6, 0.67), (0.75, 0.84), (0.85, 0.92), (0.95, 0.95), (1.0, 1.0)],
               'steep-low': [(0.5, 0.06), (0.6, 0.14), (0.75, 0.5), (0.85, 0.92), (0.95, 0.95), (1.0, 1.0)]}[shape]
        gear = rng.choice([1.0, 1 / base.design_speed, 2.5])
        top = base.design_speed * gear
        p.driver = Driver_('drv', interpDict(*[(x * top, y * p.avail_power) for x, y in pts]))
        p.gear_ratio = gear
    s = SlurryObj.Slurry(fluid=rng.choice(['salt', 'fresh']), Cv=rng.uniform(0.02, 0.4))
    p.slurry = s
    p.current_speed = base.design_speed * rng.uniform(0.6, 1.0) if rng.random() < 0.8 else base.design_speed
    p.current_impeller = base.design_impeller * (rng.uniform(0.8, 1.0) if rng.random() < 0.7 else 1.0)
    if rng.random() < 0.15:
        p._max_driver_speed = base.design_speed * rng.uniform(0.9, 1.1)
    return p, mode


def encode_pump(p, mode):
    drv = p.driver.design_power_curve if (mode == 'curve' and p.driver is not None) else {}
    return ([hx(p.design_speed), hx(p.design_impeller)] + flat(p.design_QH_curve) + flat(p.design_QP_curve)
            + ['1' if p.design_QH_curve.extrapolate_low else '0', hx(p.avail_power), mode if mode != 'None' else 'none']
            + flat(drv) + [hx(p.gear_ratio), hx(p._current_speed), hx(p._current_impeller), hx(p._max_driver_speed),
                           hx(p.slurry.rhol), hx(p.slurry.rhom)])


class TO(Exception):
    pass


def main():
    ap = argparse.ArgumentParser()
    ap.add_argument('--out', required=True)
    ap.add_argument('--n', type=int, default=300)
    a = ap.parse_args()
    check_repo_import()
    from DHLLDV import PumpObj, SlurryObj
    from DHLLDV.DriverObj import Driver as Driver_
    from DHLLDV.DHLLDV_Utils import interpDict
    import ExamplePumps
    import scipy.optimize
    rng = random.Random(seed())
    st = Stats()
    st.ulp = 0
    reqs, expect = [], []
    dist = {}
    roots = []
    orig_rs = scipy.optimize.root_scalar

    def rec_root_scalar(*args, **kw):
        r = orig_rs(*args, **kw)
        roots.append((kw.get('bracket'), r.root, r.converged))
        return r
    scipy.optimize.root_scalar = rec_root_scalar

    def alarm(*x):
        raise TO()
    signal.signal(signal.SIGALRM, alarm)
    impure = 0
    try:
        for i in range(a.n):
            p, mode = gen_pump(rng, ExamplePumps, PumpObj, Driver_, interpDict, SlurryObj)
            qmax = max(p.design_QH_curve.keys())
            Q = qmax * rng.uniform(0.02, 1.0)
            water = rng.random() < 0.4
            before = {k: (dict(v) if isinstance(v, dict) else v) for k, v in p.__dict__.items()}
            roots.clear()
            signal.alarm(5)
            try:
                o = py_outcome(p.point, Q, water)
            except TO:
                o = ('err', 'Timeout')
            finally:
                signal.alarm(0)
            after = {k: (dict(v) if isinstance(v, dict) else v) for k, v in p.__dict__.items()}
            if before != after:
                impure += 1
                st.disagree.append({'function': 'point', 'what': 'point() modified the pump', 'changed': [k for k in before if before[k] != after.get(k)]})
            root = roots[-1][1] if roots else 0.0
            base = ['400', hx(root)] + encode_pump(p, mode)
            reqs.append(('Pump.point', base + [hx(Q), '1' if water else '0']))
            inp = {'pump': p.name, 'mode': mode, 'Q': Q, 'water': water, 'speed': p._current_speed, 'impeller': p._current_impeller,
                   'avail_power': p.avail_power, 'gear_ratio': p.gear_ratio, 'root_oracle': root if roots else None}
            expect.append(('point', inp, o if o[0] == 'err' else ('ok', [float(x) for x in o[1]])))
            limited_now = o[0] == 'ok' and o[1][3] != p._current_speed
            k = f"{mode}:{'limited' if limited_now else ('error:' + o[1] if o[0] == 'err' else 'at-set-speed')}"
            dist[k] = dist.get(k, 0) + 1
            n = p._current_speed * rng.uniform(0.5, 1.0)
            o = py_outcome(p.power_required, Q, n, water)
            reqs.append(('Pump.power_required', base + [hx(Q), hx(n), '1' if water else '0']))
            expect.append(('power_required', dict(inp, n=n), o if o[0] == 'err' else ('ok', [float(o[1])])))
            o = py_outcome(p.power_available, n)
            reqs.append(('Pump.power_available', base + [hx(n)]))
            expect.append(('power_available', dict(inp, n=n), o if o[0] == 'err' else ('ok', [float(o[1])])))
    finally:
        scipy.optimize.root_scalar = orig_rs
    replies = Driver().batch(reqs)
    for (kind, inp, o), rep in zip(expect, replies):
        st.evaluations += 1
        key = repr((kind, inp))
        st.distinct.add(key)
        if o[0] == 'err':
            st.err_kinds[o[1]] = st.err_kinds.get(o[1], 0) + 1
            if rep[0] == 'err':
                st.agree_err += 1
            else:
                st.disagree.append({'function': kind, 'input': inp, 'python': o, 'model': rep[1][:6]})
            continue
        if rep[0] != 'ok':
            st.disagree.append({'function': kind, 'input': inp, 'python': [x.hex() for x in o[1]], 'model': rep})
            continue
        c = compare(o[1], rep[1])
        if c == 'exact':
            st.agree += 1
            st.nontrivial.add(key)
        elif c == 'ulp':
            st.ulp += 1
            st.nontrivial.add(key)
        else:
            st.disagree.append({'function': kind, 'input': inp, 'python': [x.hex() for x in o[1]], 'model': rep[1]})
        if len(st.samples) < 3 and st.evaluations % 131 == 1:
            st.samples.append({'function': kind, 'input': inp})
    res = {'ok': not st.disagree, 'evaluations': st.evaluations, 'agree_bit_exact': st.agree, 'agree_on_error': st.agree_err,
           'ulp_level_differences': st.ulp, 'distinct': len(st.distinct), 'distinct_nontrivial': len(st.nontrivial),
           'disagreements': st.disagree[:8], 'n_disagreements': len(st.disagree), 'error_kinds': st.err_kinds, 'distribution': dist,
           'point_calls_that_modified_the_pump': impure, 'samples': st.samples, 'seed': seed(), 'wall_s': st.wall()}
    write_json(a.out, res)
    print(f"corr_pump: {st.evaluations} evaluations, {st.agree} bit-exact, {st.ulp} ulp-level, {st.agree_err} agree-on-error, {len(st.disagree)} disagreements")
    sys.exit(0 if not st.disagree else 1)


if __name__ == '__main__':
    main()
