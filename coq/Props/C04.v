(* C04 -- the head-loss surface is physically ordered, monotone and free of jumps.
   Statements only; proofs in Lemmas/SwameeJain.v, LIl.v, LSettle.v, LHe.v, LC01.v -- all about the regenerated model. *)
From Coq Require Import Reals Lra.
From DHV Require Import NumOps RInst LIl LSettle LHe LC01 LHo.
From DHV Require Constants Homogeneous Heterogeneous Framework.
Local Open Scope R_scope.

(* the carrier-liquid gradient is positive, rises with line speed and falls with pipe diameter *)
Theorem C04_il_positive : forall vls Dp eps nu rhol : R, liqE vls Dp eps nu -> 0 < Homogeneous.fluid_head_loss RN vls Dp eps nu rhol.
Proof. exact LIl.il_pos. Qed.
Print Assumptions C04_il_positive.

Theorem C04_il_rises_with_speed : forall vls1 vls2 Dp eps nu rhol : R,
  liqE vls1 Dp eps nu -> liqE vls2 Dp eps nu -> vls1 < vls2 ->
  Homogeneous.fluid_head_loss RN vls1 Dp eps nu rhol < Homogeneous.fluid_head_loss RN vls2 Dp eps nu rhol.
Proof. exact LIl.il_increasing_vls. Qed.
Print Assumptions C04_il_rises_with_speed.

Theorem C04_il_falls_with_diameter : forall vls Dp1 Dp2 eps nu rhol : R,
  liqE vls Dp1 eps nu -> liqE vls Dp2 eps nu -> Dp1 < Dp2 ->
  Homogeneous.fluid_head_loss RN vls Dp2 eps nu rhol < Homogeneous.fluid_head_loss RN vls Dp1 eps nu rhol.
Proof. exact LIl.il_decreasing_Dp. Qed.
Print Assumptions C04_il_falls_with_diameter.

(* free settling velocity rises with grain size and with density *)
Theorem C04_vt_rises_with_grain_size : forall d1 d2 Rsd nu K : R, 0 < d1 < d2 -> 0 < Rsd -> 0 < nu ->
  Heterogeneous.vt_ruby RN d1 Rsd nu K < Heterogeneous.vt_ruby RN d2 Rsd nu K.
Proof. exact LSettle.vt_increasing_d. Qed.
Print Assumptions C04_vt_rises_with_grain_size.

Theorem C04_vt_rises_with_density : forall d Rsd1 Rsd2 nu K : R, 0 < d -> 0 < nu -> 0 < Rsd1 < Rsd2 ->
  Heterogeneous.vt_ruby RN d Rsd1 nu K < Heterogeneous.vt_ruby RN d Rsd2 nu K.
Proof. exact LSettle.vt_increasing_Rsd. Qed.
Print Assumptions C04_vt_rises_with_density.

(* hindered settling is positive, below the free value, and falls with concentration *)
Theorem C04_hindered_settling : forall d Rsd nu K Cvs : R, 0 < d -> 0 < Rsd -> 0 < nu -> 0 < Cvs < 1 ->
  0 < Heterogeneous.vth_RZ RN d Rsd nu Cvs K < Heterogeneous.vt_ruby RN d Rsd nu K26.
Proof. exact LSettle.vth_facts. Qed.
Print Assumptions C04_hindered_settling.

Theorem C04_hindered_falls_with_concentration : forall d Rsd nu K Cvs1 Cvs2 : R,
  0 < d -> 0 < Rsd -> 0 < nu -> 0 < Cvs1 < Cvs2 -> Cvs2 < 1 ->
  Heterogeneous.vth_RZ RN d Rsd nu Cvs2 K < Heterogeneous.vth_RZ RN d Rsd nu Cvs1 K.
Proof. exact LSettle.vth_decreasing_Cvs. Qed.
Print Assumptions C04_hindered_falls_with_concentration.

(* the heterogeneous excess gradient falls with line speed -- for both settings of both module switches, any
   concentration, any grain and solids density *)
Theorem C04_he_falls_with_speed : forall (sf sq : bool) (vls1 vls2 Dp d eps nu rhol rhos Cvs : R),
  liqE vls1 Dp eps nu -> liqE vls2 Dp eps nu -> vls1 < vls2 -> 0 < d -> 0 < rhol < rhos ->
  Heterogeneous.Erhg RN vls2 Dp d eps nu rhol rhos Cvs sf sq < Heterogeneous.Erhg RN vls1 Dp d eps nu rhol rhos Cvs sf sq.
Proof. exact LHe.he_decreasing_vls. Qed.
Print Assumptions C04_he_falls_with_speed.

(* no jumps from the regime selection: the selected gradient is max(min(FB, SB, He), Ho) of the four model gradients
   (C01), and that selection is 1-Lipschitz -- it cannot change by more than the largest change among the four curves *)
Theorem C04_selection : forall (sf sq : bool) (vls Dp d eps nu rhol rhos Cvs : R),
  let r := Framework.Cvs_Erhg_dict RN sf sq vls Dp d eps nu rhol rhos Cvs in
  Framework.Cvs_Erhg RN sf sq vls Dp d eps nu rhol rhos Cvs =
  select (Framework.Erhg6_FB r) (Framework.Erhg6_SB r) (Framework.Erhg6_He r) (Framework.Erhg6_Ho r).
Proof. exact LC01.value. Qed.
Print Assumptions C04_selection.

Theorem C04_selection_no_jump : forall a b c d a' b' c' d' e : R,
  Rabs (a - a') <= e -> Rabs (b - b') <= e -> Rabs (c - c') <= e -> Rabs (d - d') <= e ->
  Rabs (select a b c d - select a' b' c' d') <= e.
Proof. exact LHe.select_lipschitz. Qed.
Print Assumptions C04_selection_no_jump.

(* no jumps at the branch thresholds inside the models: the sliding-flow blend at its onset f = 1, the two breakpoints
   of sqrtcx *)
Theorem C04_sf_onset_continuous : forall (vls Dp d eps nu rhol rhos Cvs : R) (sq : bool),
  d / (Constants.particle_ratio RN * Dp) = 1 ->
  Heterogeneous.Erhg RN vls Dp d eps nu rhol rhos Cvs true sq = Heterogeneous.Erhg RN vls Dp d eps nu rhol rhos Cvs false sq.
Proof. exact LHe.he_no_jump_at_sf_onset. Qed.
Print Assumptions C04_sf_onset_continuous.

Theorem C04_blend_continuous : forall X f mu : R, f = 1 -> (X + (f - 1) * mu) / f = X.
Proof. exact LHe.sf_blend_continuous. Qed.
Print Assumptions C04_blend_continuous.

Theorem C04_sqrtcx_breakpoints :
  (forall g : R, g = 18 / 10 -> 18 / 10 * Rpower (g / (18 / 10)) (75 / 100) = g) /\
  (forall g w : R, g = w -> g * (6 / 10) + w * (1 - 6 / 10) = g).
Proof. split; [exact LHe.sqrtcx_break_small|exact LHe.sqrtcx_break_wilson]. Qed.
Print Assumptions C04_sqrtcx_breakpoints.

(* the homogeneous excess gradient (Eqn 8.7-8: sliding-flow blend off, or below its onset d/Dp < 0.015) lies between
   zero and the liquid gradient, on the envelope with steel roughness (eps <= 4.5e-5 m): lambda <= 8/225 there, which
   is exactly what makes the Talmon term sb <= 1 + Rsd Cvs *)
Theorem C04_ho_between : forall (vls Dp d eps nu rhol rhos Cvs : R) (sf : bool),
  liqE_steel vls Dp eps nu -> 0 < d -> 0 < rhol < rhos -> 0 < Cvs ->
  (sf = false \/ d / (Constants.particle_ratio RN * Dp) < 1) ->
  0 <= Homogeneous.Erhg RN vls Dp d eps nu rhol rhos Cvs sf <= Homogeneous.fluid_head_loss RN vls Dp eps nu rhol.
Proof. exact LHo.ho_bounds. Qed.
Print Assumptions C04_ho_between.

Theorem C04_friction_factor_bound : forall vls Dp eps nu : R, liqE_steel vls Dp eps nu ->
  Homogeneous.swamee_jain_ff RN (Homogeneous.pipe_reynolds_number RN vls Dp nu) Dp eps <= 8 / 225.
Proof. exact LHo.lambda_small. Qed.
Print Assumptions C04_friction_factor_bound.

(* the selected uniform-sand excess gradient is never negative: for spatial-concentration input ... *)
Theorem C04_selected_nonneg : forall (sf sq : bool) (vls Dp d eps nu rhol rhos Cvs : R),
  liqE_steel vls Dp eps nu -> 0 < d -> 0 < rhol < rhos -> 0 < Cvs ->
  0 <= Framework.Cvs_Erhg RN sf sq vls Dp d eps nu rhol rhos Cvs.
Proof. exact LHo.Cvs_nonneg. Qed.
Print Assumptions C04_selected_nonneg.

(* ... and for delivered-concentration input whenever the slip ratio is below 1 (the part of C05 that is proved is
   Xi > 0; Xi < 1 follows from C05's upper bound, which is searched) *)
Theorem C04_delivered_nonneg_partial : forall (sf sq : bool) (vls Dp d eps nu rhol rhos Cvt : R),
  liqE_steel vls Dp eps nu -> 0 < d -> 0 < rhol < rhos -> 0 < Cvt ->
  Framework.slip_ratio RN vls Dp d eps nu rhol rhos Cvt < 1 ->
  0 <= Framework.Cvt_Erhg RN sf sq vls Dp d eps nu rhol rhos Cvt.
Proof. exact LHo.Cvt_nonneg. Qed.
Print Assumptions C04_delivered_nonneg_partial.

(* the heterogeneous excess gradient is positive *)
Theorem C04_he_positive : forall (sf sq : bool) (vls Dp d eps nu rhol rhos Cvs : R),
  liqE vls Dp eps nu -> 0 < d -> 0 < rhol < rhos -> 0 < Heterogeneous.Erhg RN vls Dp d eps nu rhol rhos Cvs sf sq.
Proof. exact LHo.he_pos. Qed.
Print Assumptions C04_he_positive.

(* the envelope is not empty *)
Theorem C04_nonvacuous : liqE_steel 3 (762 / 1000) (45 / 1000000) (10508 / 10000000000).
Proof. unfold liqE_steel, liqE. repeat split; lra. Qed.
Print Assumptions C04_nonvacuous.
