"""excel_faults.py: single structural faults on a workbook (as openpyxl exposes it) and the loader's outcome class.

A fault is a function wb -> None applied to a freshly re-opened copy of the workbook; outcome(wb) runs the real
load_pipeline_from_workbook and classifies: 'Ok' | 'Invalid' | 'Other:<ExceptionClass>'."""
import io
import re
import warnings

import openpyxl
from openpyxl.workbook.defined_name import DefinedName


def reopen(data):
    with warnings.catch_warnings():
        warnings.simplefilter('ignore')
        return openpyxl.load_workbook(io.BytesIO(data), data_only=True)


def sheet_type(name, requireds):
    t = [k for k in requireds if k in name.lower()]
    return t[0] if len(t) == 1 else None


def range_cells(ws, name):
    dn = ws.defined_names[name]
    addr = dn.attr_text.split('!')[1].replace('$', '')
    return addr


def enumerate_faults(data, requireds):
    """-> list of (label, kind, function(wb)) ; kind in the property's fault classes"""
    wb = reopen(data)
    faults = []
    for ws in wb.worksheets:
        st = sheet_type(ws.title, requireds)
        if st is None:
            continue
        title = ws.title
        if st in ('pipeline', 'slurry', 'pump'):
            faults.append((f'delete sheet {title}', 'missing-sheet' if st != 'pump' else 'dangling-pump',
                           lambda w, t=title: w.remove(w[t])))
        for fname, ftype in requireds[st].items():
            if fname == 'required':
                continue
            if fname not in ws.defined_names:
                continue
            faults.append((f'delete name {title}!{fname}', 'missing-name', lambda w, t=title, f=fname: w[t].defined_names.pop(f)))
            if ftype is float:
                addr = range_cells(ws, fname)
                faults.append((f'blank {title}!{fname}', 'blank-numeric', lambda w, t=title, a=addr: setattr(w[t][a], 'value', None)))
                faults.append((f'stringify {title}!{fname}', 'nonnumeric', lambda w, t=title, a=addr: setattr(w[t][a], 'value', 'abc')))
            if isinstance(ftype, dict):
                addr = range_cells(ws, fname)
                m = re.match(r'([A-Z]+)(\d+):([A-Z]+)(\d+)', addr)
                c1, r1, c2, r2 = m.group(1), int(m.group(2)), m.group(3), int(m.group(4))
                i1, i2 = openpyxl.utils.column_index_from_string(c1), openpyxl.utils.column_index_from_string(c2)
                header = [ws.cell(row=r1, column=c).value for c in range(i1, i2 + 1)]
                for col_key in ftype:
                    keys = col_key if isinstance(col_key, tuple) else (col_key,)
                    idx = [k for k, h in enumerate(header) if isinstance(h, str) and all(x in h.lower() for x in keys)]
                    if not idx:
                        continue
                    ci = i1 + idx[0]

                    def drop(w, t=title, r=r1, c=ci):
                        w[t].cell(row=r, column=c).value = 'zzz'
                    faults.append((f'drop column {title}!{fname}[{col_key}]', 'missing-column', drop))

                    def dup(w, t=title, f=fname, r1=r1, r2=r2, c=ci, i1=i1, i2=i2):
                        s = w[t]
                        for r in range(r1, r2 + 1):
                            s.cell(row=r, column=i2 + 1).value = s.cell(row=r, column=c).value
                        new = f"'{t}'!${openpyxl.utils.get_column_letter(i1)}${r1}:${openpyxl.utils.get_column_letter(i2 + 1)}${r2}"
                        s.defined_names.pop(f)
                        s.defined_names.add(DefinedName(f, attr_text=new))
                    faults.append((f'duplicate column {title}!{fname}[{col_key}]', 'duplicate-column', dup))
        if st == 'pipeline' and 'pipe_table' in ws.defined_names:
            addr = range_cells(ws, 'pipe_table')
            m = re.match(r'([A-Z]+)(\d+):([A-Z]+)(\d+)', addr)
            c1, r1, r2 = openpyxl.utils.column_index_from_string(m.group(1)), int(m.group(2)), int(m.group(4))
            header = [ws.cell(row=r1, column=c).value for c in range(c1, c1 + 6)]
            ncol = c1 + next((k for k, h in enumerate(header) if isinstance(h, str) and 'name' in h.lower()), 0)
            for r in range(r1 + 1, r2 + 1):
                v = ws.cell(row=r, column=ncol).value
                if isinstance(v, str) and 'pump' in v.lower():
                    faults.append((f'dangling pump reference row {r}', 'dangling-pump',
                                   lambda w, t=title, r=r, c=ncol: setattr(w[t].cell(row=r, column=c), 'value', 'Number9Pump')))
    return faults


def outcome(wb, L):
    with warnings.catch_warnings():
        warnings.simplefilter('ignore')
        try:
            pl = L.load_pipeline_from_workbook(wb)
            return 'Ok', pl
        except L.InvalidExcelError as e:
            return 'Invalid', str(e)[:120]
        except Exception as e:
            return 'Other:' + type(e).__name__, str(e)[:120]
