(* C15 -- saving a pipeline to Excel and loading it back preserves the system; the file name is safe.
   Statements only; proofs in Lemmas/LC15a.v.  The whitelist is regenerated from store_pump_excel.py (Gen/FileChars.v);
   FileName.v and Excel.v are hand-written models run against the real store / load code. *)
From Coq Require Import ZArith Reals List Bool.
From DHV Require Import NumOps RInst Interp Fracs SlurryCalc FileChars FileName LC07 LC07b LC15a.
Import ListNotations.

(* FILE NAME, for every list of Unicode code points as pipeline name, requested file name and time stamp: the stored
   base name is <letters, digits, '-', '_' only> followed by ".xlsx" ... *)
Theorem C15_filename_shape : forall (fname : option (list Z)) (pipeline_name timestamp : list Z),
  exists stem, stored_basename fname pipeline_name timestamp = stem ++ extension /\ Forall (fun c => is_safe c = true) stem.
Proof. exact LC15a.stored_shape. Qed.
Print Assumptions C15_filename_shape.

(* ... the whitelist regenerated from the source IS letters, digits, '-' and '_' (both directions) ... *)
Theorem C15_whitelist : forallb is_safe valid_filename_chars = true /\ (forall c, is_safe c = true -> mem c valid_filename_chars = true).
Proof. exact (conj LC15a.whitelist_is_safe LC15a.whitelist_complete). Qed.
Print Assumptions C15_whitelist.

(* ... it contains no path separator, so joining it to the requested folder yields a direct child of that folder ... *)
Theorem C15_no_separator : forall (fname : option (list Z)) (pipeline_name timestamp : list Z),
  Forall (fun c => c <> 47 /\ c <> 92)%Z (stored_basename fname pipeline_name timestamp).
Proof. exact LC15a.stored_no_separator. Qed.
Print Assumptions C15_no_separator.

(* ... and a trailing ".xlsx" in the request is not doubled *)
Theorem C15_extension_once : forall (f pipeline_name timestamp : list Z),
  stored_basename (Some (f ++ extension)) pipeline_name timestamp = stored_basename (Some f) pipeline_name timestamp
  \/ ends_with extension f = true.
Proof. exact LC15a.extension_not_doubled. Qed.
Print Assumptions C15_extension_once.

(* GRADING: the slurry sheet stores D15/D50/D85 in mm (read with get_dx); the loader regenerates the grading from
   D50 and the two ratios of the stored values -- and gets the same grading back, for every slurry with ratios above 1
   and D50 above the pseudo-liquid limit (solids density and all: the repaired stale-grading defect made this fail
   for rhos <> 2.65) *)
Local Open Scope R_scope.
Theorem C15_grading_roundtrip : forall a : astate, phys a ->
  let g := spec_gsd a in
  let p := a_p a in
  let d15 := get_dx RN g (15 / 100) * 1000 in
  let d50 := get_dx RN g (5 / 10) * 1000 in
  let d85 := get_dx RN g (85 / 100) * 1000 in
  d50 / 1000 = p_D50 p /\ d50 / d15 = a_r15 a /\ d85 / d50 = a_r85 a /\
  generate_GSD RN [] (d50 / 1000) (p_Dp p) (p_nu p) (p_rhol p) (p_rhos p) (Some (d50 / d15)) (Some (d85 / d50)) = g.
Proof. exact LC15a.grading_roundtrip. Qed.
Print Assumptions C15_grading_roundtrip.

(* WHOLE WORKBOOK: loading what store_to_excel writes gives the pipeline back -- name, every section in order (pipes with
   name, diameter, length, K, elevation change; pumps with name, geometry, speed, limit mode, gear ratio, available power,
   every row of the flow/head/power table, and the driver with its name and speed/power table), and the slurry sheet's
   nine fields -- for EVERY well-formed abstract pipeline (pipe names without the word "pump", non-empty pump curves
   without an all-zero row, a driver only on curve-limited pumps, non-zero D15 and D50, at most 40 pumps) and for ANY
   numeric instance (cells are carried, never computed with: the statement holds for binary64 cells as for reals).
   store = Models/ExcelStore.v, load = validate_excel + loaders of Models/Excel.v. *)
From Coq Require Import String.
From DHV Require Import Excel ExcelStore LC15b.
Local Open Scope string_scope.
Theorem C15_roundtrip : forall (T : Type) (N : NumOps T) (p : apipeline (T:=T)), wf N kmax0 p ->
  load N (store N pump_title driver_title p) = ROk p.
Proof. exact @LC15b.roundtrip_concrete. Qed.
Print Assumptions C15_roundtrip.

(* the same for any naming of the pump / driver tabs that keeps them recognisable and distinct *)
Theorem C15_roundtrip_any_naming : forall (T : Type) (N : NumOps T) (ptitle dtitle key : nat -> string) (kmax : nat),
  (forall k, (1 <= k <= kmax)%nat ->
     hasT "pipeline" (ptitle k) = false /\ hasT "slurry" (ptitle k) = false /\ hasT "pump" (ptitle k) = true /\ hasT "driver" (ptitle k) = false) ->
  (forall k, (1 <= k <= kmax)%nat ->
     hasT "pipeline" (dtitle k) = false /\ hasT "slurry" (dtitle k) = false /\ hasT "pump" (dtitle k) = false /\ hasT "driver" (dtitle k) = true) ->
  (forall k, (1 <= k <= kmax)%nat -> remove_suffix "pump" (lower (ptitle k)) = key k) ->
  (forall k, (1 <= k <= kmax)%nat -> remove_suffix "driver" (lower (dtitle k)) = key k) ->
  (forall i j, (1 <= i <= kmax)%nat -> (1 <= j <= kmax)%nat -> key i = key j -> i = j) ->
  forall p : apipeline (T:=T), wf N kmax p -> load N (store N ptitle dtitle p) = ROk p.
Proof. exact @LC15b.roundtrip. Qed.
Print Assumptions C15_roundtrip_any_naming.

(* the premises are satisfiable: a pipe - driver-limited pump - pipe line over the reals *)
Theorem C15_roundtrip_nonvacuous : wf RN kmax0 example_pipeline.
Proof. exact LC15b.example_wf. Qed.
Print Assumptions C15_roundtrip_nonvacuous.
