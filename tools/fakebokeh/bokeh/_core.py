"""A behavioural double of the small part of the bokeh API that DHLLDV_viewer uses (bokeh is not installed here).
Widgets hold attributes; on_change callbacks fire when a watched attribute is assigned a DIFFERENT value (as bokeh
does); on_click callbacks are fired by .click(); everything else (figures, glyphs, axes, layouts) is permissive."""
import types


class Anything:
    """any attribute / index / call works and is remembered"""

    def __init__(self, *args, **kwargs):
        self.__dict__['_items'] = {}
        self.__dict__.update(kwargs)

    def __getattr__(self, name):
        if name.startswith('__'):
            raise AttributeError(name)
        v = Anything()
        self.__dict__[name] = v
        return v

    def __getitem__(self, key):
        return self.__dict__['_items'].setdefault(key, Anything())

    def __setitem__(self, key, val):
        self.__dict__['_items'][key] = val

    def __call__(self, *a, **k):
        return Anything()

    def __iter__(self):
        return iter([])


class Model:
    def __init__(self, *args, **kwargs):
        object.__setattr__(self, '_cbs', {})
        object.__setattr__(self, '_clicks', [])
        for k, v in kwargs.items():
            object.__setattr__(self, k, v)

    def on_change(self, attr, *cbs):
        self._cbs.setdefault(attr, []).extend(cbs)

    def remove_on_change(self, attr, *cbs):
        for cb in cbs:
            self._cbs[attr].remove(cb)       # ValueError if it was not registered, as in bokeh

    def on_click(self, cb):
        self._clicks.append(cb)

    def __setattr__(self, name, value):
        old = self.__dict__.get(name, None)
        object.__setattr__(self, name, value)
        if name in self._cbs and old != value:
            for cb in list(self._cbs[name]):
                cb(name, old, value)

    def __getattr__(self, name):
        if name.startswith('_'):
            raise AttributeError(name)
        return None


class TextInput(Model):
    def __init__(self, value='', title='', **kw):
        super().__init__(value=value, title=title, **kw)


class Button(Model):
    def click(self):
        for cb in list(self._clicks):
            cb()


class Dropdown(Model):
    def click(self, item):
        for cb in list(self._clicks):
            cb(types.SimpleNamespace(item=item))


class RadioButtonGroup(Model):
    def __init__(self, labels=None, active=None, **kw):
        super().__init__(labels=labels, active=active, **kw)


class FileInput(Model):
    def __init__(self, **kw):
        super().__init__(filename='', value='', **kw)


class ColumnDataSource(Model):
    def __init__(self, data=None, **kw):
        super().__init__(data=data if data is not None else {}, **kw)


class Div(Model):
    def __init__(self, text='', **kw):
        super().__init__(text=text, **kw)


class Box(Model):
    def __init__(self, *children, **kw):
        super().__init__(children=list(children), **kw)


class TabPanel(Model):
    pass


class Tabs(Model):
    pass


class Spacer(Model):
    pass


class Range1d(Model):
    def __init__(self, start=None, end=None, **kw):
        super().__init__(start=start, end=end, **kw)


class Figure(Anything):
    def __init__(self, *args, **kwargs):
        super().__init__()
        self.__dict__['extra_x_ranges'] = {}
        self.__dict__['extra_y_ranges'] = {}
        self.__dict__['renderers'] = []

    def _glyph(self, *a, **k):
        r = Anything(**{kk: vv for kk, vv in k.items() if kk in ('source', 'name')})
        self.__dict__['renderers'].append(r)
        return r
    line = circle = circle_dot = scatter = _glyph


class _Doc:
    def __init__(self):
        self.roots = []
        self.title = ''

    def add_root(self, r):
        self.roots.append(r)


_doc = _Doc()


def curdoc():
    return _doc
