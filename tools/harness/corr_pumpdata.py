#!/venv/bin/python
"""corr_pumpdata.py --out FILE [--n N]: the shipped pump data the theorems use (coq/Gen/ExamplePumps.v, written by
tools/translate/gen_pumps.py together with coq/Gen/example_pumps.json from the same list) against the objects the real
DHLLDV_viewer/ExamplePumps.py builds: every design speed, impeller, nameplate power and every key and value of the QH /
QP curves must be, bit for bit, the double n/d of the generated literal; every Pump object of the module must have been
generated, with the same number of curve points, and its curves must have extrapolate_high on and extrapolate_low off
(what Models/Pump.v assumes for shipped pumps)."""
import argparse
import json
import os
import sys
import time

HERE = os.path.dirname(os.path.abspath(__file__))
sys.path.insert(0, HERE)
from common import write_json, seed  # noqa: E402


def main():
    ap = argparse.ArgumentParser()
    ap.add_argument('--out', required=True)
    ap.add_argument('--n', type=int, default=1)
    a = ap.parse_args()
    t0 = time.time()
    verif = os.path.dirname(os.path.dirname(HERE))
    gen = json.load(open(os.path.join(verif, 'coq', 'Gen', 'example_pumps.json')))
    import ExamplePumps
    from DHLLDV.PumpObj import Pump
    real = {k: v for k, v in vars(ExamplePumps).items() if isinstance(v, Pump)}
    dis, evals, agree = [], 0, 0

    def cmp(what, nd, val):
        nonlocal evals, agree
        evals += 1
        m = float(nd[0]) / float(nd[1])
        if m.hex() == float(val).hex():
            agree += 1
        else:
            dis.append({'what': what, 'generated': m.hex(), 'python': float(val).hex()})
    if set(real) != set(gen):
        dis.append({'what': 'set of pumps', 'generated': sorted(gen), 'python': sorted(real)})
    for name in sorted(set(real) & set(gen)):
        p, g = real[name], gen[name]
        cmp(name + '.design_speed', g['design_speed'], p.design_speed)
        cmp(name + '.design_impeller', g['design_impeller'], p.design_impeller)
        cmp(name + '.avail_power', g['avail_power'], p.avail_power)
        evals += 1
        if str(p.limited) == str(g['limited']):
            agree += 1
        else:
            dis.append({'what': name + '.limited', 'generated': g['limited'], 'python': p.limited})
        for tag, curve in (('QH', p.design_QH_curve), ('QP', p.design_QP_curve)):
            keys = sorted(curve.keys())
            if len(keys) != len(g[tag]):
                dis.append({'what': f'{name}.{tag} length', 'generated': len(g[tag]), 'python': len(keys)})
                continue
            for (kn, kd, vn, vd), k in zip(g[tag], keys):
                cmp(f'{name}.{tag} key', (kn, kd), k)
                cmp(f'{name}.{tag}[{k}]', (vn, vd), dict.__getitem__(curve, k))
            evals += 1
            if curve.extrapolate_high is True and curve.extrapolate_low is False:
                agree += 1
            else:
                dis.append({'what': f'{name}.{tag} extrapolation flags', 'python': [curve.extrapolate_low, curve.extrapolate_high]})
    res = {'ok': not dis, 'evaluations': evals, 'agree_bit_exact': agree, 'agree_on_error': 0, 'ulp_level_differences': 0,
           'distinct': evals, 'distinct_nontrivial': agree, 'disagreements': dis[:8], 'n_disagreements': len(dis), 'error_kinds': {},
           'distribution': {'pumps': len(real), 'numbers': evals}, 'samples': [{'pumps': sorted(real)}], 'seed': seed(),
           'wall_s': round(time.time() - t0, 2)}
    write_json(a.out, res)
    print(f'corr_pumpdata: {evals} numbers, {agree} bit-exact, {len(dis)} disagreements')
    sys.exit(0 if not dis else 1)


if __name__ == '__main__':
    main()
