#!/venv/bin/python
"""C05 failing-input search on the real code: 0 <= Xi <= 1 - Cvt/Cvb, Cvt <= Cvs <= Cvb, the delivered-concentration
dict = spatial dict at the derived Cvs / (1 - Xi) for every regime, Xi reported, never 'FB' / 'fixed bed'."""
import math
import random
from scommon import Search, E_args, sample_E, seed, is_slip_pole
from DHLLDV import DHLLDV_framework as fw
from DHLLDV.DHLLDV_constants import Cvb

S = Search('C05', 'random envelope points, corners over-weighted, low line speeds and coarse grains emphasised (where the 1/vls^2 branch '
                  'bites); distinct = distinct input point; known finding: exact zero of the Eqn 8.12-3 denominator')
rng = random.Random(seed())
REL = 1e-9
for i in range(S.budget):
    b = sample_E(rng, corner=0.25)
    if rng.random() < 0.3:
        b['vls'] = rng.uniform(0.1, 1.0)
    if rng.random() < 0.3:
        b['d'] = min(0.25 * b['Dp'], b['d'] * rng.uniform(1, 20))
    a = E_args(b)
    Cvt = a[7]
    sw = (rng.random() < 0.7, rng.random() < 0.7)
    fw.use_sf, fw.use_sqrtcx = sw
    try:
        Xi = fw.slip_ratio(*a)
        Cvs = fw.Cvs_from_Cvt(*a)
        r = fw.Cvt_Erhg(*a, get_dict=True)
        val = fw.Cvt_Erhg(*a)
        name = fw.Cvt_regime(*a)
        inner = fw.Cvs_Erhg(*a[:7], Cvs, get_dict=True)
    except ZeroDivisionError as e:
        if is_slip_pole(e):
            S.violation('C05:slip-pole', 'ZeroDivisionError: exact zero of the denominator of Eqn 8.12-3 (Xi_fb)', input=a)
        else:
            S.violation('C05:raise', f'ZeroDivisionError elsewhere: {e}', input=a)
        continue
    except Exception as e:
        S.count(None, 'exception:' + type(e).__name__)
        continue
    finally:
        fw.use_sf, fw.use_sqrtcx = True, True
    where = {'args': a, 'switches': sw}
    ub = 1 - Cvt / Cvb
    S.track_worst('Xi/(1-Cvt/Cvb)', Xi / ub, a)
    if not (0 <= Xi <= ub * (1 + REL)):
        S.violation('C05:Xi-range', f'slip ratio {Xi} outside [0, 1-Cvt/Cvb = {ub}]', input=where)
    if not (Cvt <= Cvs <= Cvb * (1 + REL)):
        S.violation('C05:Cvs-range', f'derived Cvs {Cvs} outside [Cvt={Cvt}, Cvb={Cvb}]', input=where)
    for k in ('FB', 'SB', 'He', 'Ho'):
        want = inner[k] / (1 - Xi)
        if not (r[k] == want or abs(r[k] - want) <= REL * abs(want)):
            S.violation('C05:dict:' + k, f'Cvt dict {k}={r[k]} != Cvs dict at derived Cvs / (1-Xi) = {want}', input=where)
    if r.get('Xi') != Xi:
        S.violation('C05:Xi-reported', f"reported slip {r.get('Xi')} != slip_ratio {Xi}", input=where)
    if r['regime'] == 'FB' or name == 'fixed bed':
        S.violation('C05:fixed-bed', f"delivered-concentration result reports the fixed-bed regime ({r['regime']}, {name})", input=where)
    if inner['regime'] == 'FB':
        want_regime = 'SB' if r['SB'] < r['He'] else 'He'
        S.count(None, 'inner-FB')
        if r['regime'] != want_regime:
            S.violation('C05:remap', f"inner regime is FB: the reported regime must be the smaller of SB ({r['SB']}) and He ({r['He']}), got {r['regime']}", input=where)
    elif r['regime'] != inner['regime']:
        S.violation('C05:regime', f"reported regime {r['regime']} differs from the inner regime {inner['regime']}", input=where)
    if r['regime'] in r and r[r['regime']] != val:
        S.violation('C05:value', 'scalar result is not the value of the reported regime', input=where)
    S.count(a, 'inner:' + inner['regime'])
    if i == 0:
        S.sample(where)
# the recorded exact zero of the Eqn 8.12-3 denominator (known finding, identified by its call site)
pole = (7.341116741723085, 0.6220277465574028, 0.0001296626597903499, 4.5e-05, 1.1944835015943532e-06, 1.0166564188449936,
        2.2852007058507358, 0.1811444315872467)
try:
    fw.slip_ratio(*pole)
except ZeroDivisionError as e:
    if is_slip_pole(e):
        S.violation('C05:slip-pole', 'ZeroDivisionError: exact zero of the denominator of Eqn 8.12-3 (Xi_fb)', input=pole)
    else:
        S.violation('C05:raise', f'ZeroDivisionError elsewhere: {e}', input=pole)
S.count(pole, 'recorded-pole')
S.finish()
