(* C20 -- Wilson models respect their own maxima, bounds and fixed points.
   Statements only; proofs in Lemmas/LC20.v, Lemmas/LWS.v and Lemmas/LV50.v.  Wilson_Stratified.py / Wilson_V50.py are regenerated each run. *)
From Coq Require Import Reals List Bool ZArith Lra.
From DHV Require Import NumOps RInst LC20 LIl LWS LV50.
From DHV Require Constants Homogeneous WilsonStratified WilsonV50.
Local Open Scope R_scope.

(* deposit velocity is non-negative and never exceeds the maximum deposit velocity (with and without the
   friction-factor alternative of WACS2 Eqn 5.1) *)
Theorem C20_Vsm_range : forall Dp d rhol rhos musf Cv Cvb f : R, 0 < Cvb -> 0 < Cv < Cvb ->
  0 <= WilsonStratified.Vsm RN Dp d rhol rhos musf Cv Cvb <= WilsonStratified.Vsm_max RN Dp d rhol rhos musf /\
  0 <= WilsonStratified.Vsm_f RN Dp d rhol rhos musf Cv Cvb f <= WilsonStratified.Vsm_max_f RN Dp d rhol rhos musf f.
Proof. intros; split; [apply LC20.Vsm_range|apply LC20.Vsm_f_range]; assumption. Qed.
Print Assumptions C20_Vsm_range.

(* at the relative concentration the model itself reports as the location of the maximum it returns the
   maximum, within 0.2 % -- both branches of Eqn 6.20-36 *)
Theorem C20_Vsm_at_max : forall Dp d rhol rhos musf Cvb : R, Cvb <> 0 ->
  let c := WilsonStratified.Cvr_max RN Dp d rhol rhos in
  let m := WilsonStratified.Vsm_max RN Dp d rhol rhos musf in
  Rabs (WilsonStratified.Vsm RN Dp d rhol rhos musf (c * Cvb) Cvb - m) <= 2 / 1000 * m.
Proof. exact LC20.Vsm_at_max. Qed.
Print Assumptions C20_Vsm_at_max.

Theorem C20_Cvr_max_bounds : forall Dp d rhol rhos : R, 5 / 100 <= WilsonStratified.Cvr_max RN Dp d rhol rhos <= 66 / 100.
Proof. exact LC20.Cvr_max_bounds. Qed.
Print Assumptions C20_Cvr_max_bounds.

(* the grading exponent stays within [0.25, 1.7] *)
Theorem C20_M : forall Dp d50 d85 nu rhol rhos : R, 25 / 100 <= WilsonV50.M RN Dp d50 d85 nu rhol rhos <= 17 / 10.
Proof. exact LC20.M_bounds. Qed.
Print Assumptions C20_M.

(* when the V50 iteration returns, the result is w * sqrt(8/ff) * cosh(60 d50/Dp) with ff the friction factor
   at the previous iterate's speed, and the last two friction factors agree to 1e-4 *)
Theorem C20_V50_result : forall (fuel : nat) (Dp d50 d85 eps nu rhol rhos ffl' v' Re' fft' : R),
  let w50 := WilsonV50.w RN d50 nu rhol rhos in
  let ff0 := 12 / 1000 in
  WilsonV50.V50_loop1 RN fuel w50 Dp d50 nu eps ff0 (v50_of w50 Dp d50 ff0)
            (Homogeneous.pipe_reynolds_number RN (v50_of w50 Dp d50 ff0) Dp nu)
            (Homogeneous.swamee_jain_ff RN (Homogeneous.pipe_reynolds_number RN (v50_of w50 Dp d50 ff0) Dp nu) Dp eps)
    = Some (ffl', v', Re', fft') ->
  WilsonV50.V50 RN fuel Dp d50 d85 eps nu rhol rhos = v50_of w50 Dp d50 fft' /\
  fft' = Homogeneous.swamee_jain_ff RN (Homogeneous.pipe_reynolds_number RN (v50_of w50 Dp d50 ffl') Dp nu) Dp eps /\
  (0 <= fft' -> 0 <= ffl' -> Rabs (fft' - ffl') < 1 / 10000).
Proof. exact LC20.V50_result. Qed.
Print Assumptions C20_V50_result.

(* the V50 iteration TERMINATES on the envelope (steel roughness 0.045..0.1 mm): the friction-factor map is monotone
   on [0.01, 0.036] and maps it into itself, so the iterates move one way and can change their 4-digit bin at most 360
   times; the loop of the model returns within 361 passes (the correspondence runs it with fuel 400) ... *)
Theorem C20_V50_terminates : forall (Dp d50 eps nu rhol rhos : R), v50E Dp d50 eps nu rhol rhos ->
  forall fuel : nat, (360 < fuel)%nat ->
  let w50 := WilsonV50.w RN d50 nu rhol rhos in
  exists a, WilsonV50.V50_loop1 RN fuel w50 Dp d50 nu eps (12 / 1000) (v50_of w50 Dp d50 (12 / 1000))
            (Homogeneous.pipe_reynolds_number RN (v50_of w50 Dp d50 (12 / 1000)) Dp nu)
            (Homogeneous.swamee_jain_ff RN (Homogeneous.pipe_reynolds_number RN (v50_of w50 Dp d50 (12 / 1000)) Dp nu) Dp eps)
       = Some (a, vof w50 Dp d50 a, reof w50 Dp d50 nu a, gV w50 Dp d50 nu eps a) /\
       1 / 100 <= a <= 36 / 1000 /\ bin (gV w50 Dp d50 nu eps a) = bin a.
Proof. exact LV50.V50_terminates. Qed.
Print Assumptions C20_V50_terminates.

(* ... so the fuel of the model is immaterial: any two fuels above 360 give the same V50 (the unfuelled Python loop) *)
Theorem C20_V50_fuel_independent : forall (Dp d50 d85 eps nu rhol rhos : R), v50E Dp d50 eps nu rhol rhos ->
  forall f1 f2 : nat, (360 < f1)%nat -> (360 < f2)%nat ->
  WilsonV50.V50 RN f1 Dp d50 d85 eps nu rhol rhos = WilsonV50.V50 RN f2 Dp d50 d85 eps nu rhol rhos.
Proof. exact LV50.V50_fuel_independent. Qed.
Print Assumptions C20_V50_fuel_independent.

(* ... and the returned V50 satisfies its implicit equation V = w sqrt(8 / lambda(Re(V))) cosh(60 d50 / Dp) within
   0.1 % (the property asks 0.5 %) *)
Theorem C20_V50_equation : forall (Dp d50 d85 eps nu rhol rhos : R), v50E Dp d50 eps nu rhol rhos ->
  forall fuel : nat, (360 < fuel)%nat ->
  let V := WilsonV50.V50 RN fuel Dp d50 d85 eps nu rhol rhos in
  let F := WilsonV50.w RN d50 nu rhol rhos
           * sqrt (8 / Homogeneous.swamee_jain_ff RN (Homogeneous.pipe_reynolds_number RN V Dp nu) Dp eps) * cosh (60 * d50 / Dp) in
  0 < V /\ 0 < F /\ Rabs (V - F) <= 1 / 1000 * F.
Proof. exact LV50.V50_equation. Qed.
Print Assumptions C20_V50_equation.

(* the envelope is inhabited *)
Theorem C20_V50_nonvacuous : v50E (5 / 10) (1 / 1000) (45 / 1000000) (1 / 1000000) 1 (265 / 100).
Proof. unfold v50E. lra. Qed.
Print Assumptions C20_V50_nonvacuous.

(* both models' gradients exceed the water gradient *)
Theorem C20_exceeds_water : forall (fuel : nat) (vls Dp d d85 eps nu rhol rhos musf Cv Cvb : R),
  0 < musf -> 0 < (rhos - rhol) / rhol * Cv ->
  Homogeneous.fluid_head_loss RN vls Dp eps nu rhol < WilsonStratified.stratified_head_loss RN vls Dp d eps nu rhol rhos musf Cv Cvb /\
  Homogeneous.fluid_head_loss RN vls Dp eps nu rhol < WilsonV50.heterogeneous_head_loss RN fuel vls Dp d d85 eps nu rhol rhos Cv musf.
Proof. intros; split; [apply LC20.ws_exceeds_water|apply LC20.v50_exceeds_water]; assumption. Qed.
Print Assumptions C20_exceeds_water.

(* the V50 excess gradient does not rise with line speed *)
Theorem C20_V50_nonincreasing : forall (fuel : nat) (v1 v2 Dp d50 d85 eps nu rhol rhos musf : R),
  0 < musf -> 0 < WilsonV50.V50 RN fuel Dp d50 d85 eps nu rhol rhos -> 0 < v1 <= v2 ->
  WilsonV50.Erhg RN fuel v2 Dp d50 d85 eps nu rhol rhos musf <= WilsonV50.Erhg RN fuel v1 Dp d50 d85 eps nu rhol rhos musf.
Proof. exact LC20.v50_Erhg_nonincreasing. Qed.
Print Assumptions C20_V50_nonincreasing.

(* the Wilson stratified excess gradient does not rise with line speed either, on the liquid side of the envelope
   (the deposit velocity follows the friction factor, which falls with speed, but only like V^0.26) *)
Theorem C20_ws_nonincreasing : forall (V1 V2 Dp d eps nu rhol rhos musf Cvt Cvb : R),
  liqE V1 Dp eps nu -> liqE V2 Dp eps nu -> V1 <= V2 -> 0 < musf -> 0 < Cvt < 6 / 10 ->
  WilsonStratified.Erhg RN V2 Dp d eps nu rhol rhos musf Cvt Cvb <= WilsonStratified.Erhg RN V1 Dp d eps nu rhol rhos musf Cvt Cvb.
Proof. exact LWS.ws_Erhg_nonincreasing. Qed.
Print Assumptions C20_ws_nonincreasing.
