(* C10 -- the operating point is the stable pump/system intersection right of the minimum-friction flow.
   Statements only; proofs in Lemmas/LC10.v.  Model: Models/OpPoint.v = find_operating_point (after the repair: the
   unbracketed secant iteration of scipy written out, guarded, with the bracketing solver as an oracle behind it),
   compared bit for bit, incl. the visited flows, with the real method. *)
From Coq Require Import Reals List Bool.
From DHV Require Import NumOps RInst OpPoint LC10.
Import ListNotations.
Local Open Scope R_scope.

(* pump head below system head at the minimum-friction flow -> OperatingPointError *)
Theorem C10_infeasible : forall (gap : R -> R) (raises : R -> bool) (qimin qlast hsys hpump : R) (bc : bool) (br hs hp : R),
  hpump < hsys -> find_operating_point RN gap raises qimin qlast hsys hpump bc br hs hp = (OperatingPointError, []).
Proof. exact LC10.infeasible. Qed.
Print Assumptions C10_infeasible.

(* in every case (every head-gap function, every set of flows at which evaluating it raises IndexError, every answer
   of the bracketing solver): a flow is returned only as (a) a root the secant search reports as converged, at or
   right of the minimum-friction flow, or (b) the bracketing solver's answer, asked only when (a) failed and the system
   head is above the pump head at the largest flow, and accepted only when it converged and the heads at it agree to
   1e-6 relative; otherwise OperatingPointError.  scipy's ValueError ("x1 and x0 must be different") cannot occur over
   the reals: the two starting flows coincide only when the minimum-friction flow is the largest flow, which is
   answered with OperatingPointError (C10_at_end).  An IndexError escapes only from the evaluation at the largest
   tabulated flow (one raised inside the secant search is swallowed: no foreign exception from a search that wandered
   off). *)
Theorem C10_outcomes : forall (gap : R -> R) (raises : R -> bool) (qimin qlast hsys hpump : R) (bc : bool) (br hs hp : R),
  let x1 := (qimin + qlast) / 2 in
  let fop := find_operating_point RN gap raises qimin qlast hsys hpump bc br hs hp in
  (exists r vis, fop = (Ok r, vis) /\ hsys <= hpump /\ qimin < qlast /\
     ((qimin <= r /\ secant RN gap raises qimin x1 = (Some (r, true), vis)) \/
      (r = br /\ accepted RN qimin (fst (secant RN gap raises qimin x1)) = None /\ raises qlast = false /\ 0 < gap qlast /\ bc = true /\
       Rabs (hs - hp) <= 1 / 1000000 * Rmax (Rabs hs) (Rabs hp)))) \/
  (exists vis, fop = (OperatingPointError, vis)) \/
  (exists vis, fop = (IndexErr, vis) /\ raises qlast = true).
Proof. exact LC10.outcomes. Qed.
Print Assumptions C10_outcomes.

(* the minimum-friction flow at the largest tabulated flow: OperatingPointError (before the repair 73268bd scipy's
   ValueError escaped here) *)
Theorem C10_at_end : forall (gap : R -> R) (raises : R -> bool) (qimin qlast hsys hpump : R) (bc : bool) (br hs hp : R),
  qlast <= qimin -> hsys <= hpump ->
  find_operating_point RN gap raises qimin qlast hsys hpump bc br hs hp = (OperatingPointError, []).
Proof. exact LC10.at_end. Qed.
Print Assumptions C10_at_end.

(* the landing clause (was: searched only; a theorem after the repair): pump head at least system head at the
   minimum-friction flow, system head above pump head at the largest tabulated flow, and a bracketing solver that
   converges to a flow at which the two heads agree to 1e-6 relative -- then a flow IS returned, whatever the
   unbracketed search did (cycled, wandered out of a table, landed left of qimin): its own converged root at or right of
   qimin, or else the bracketed one.  That the bracketing solver (scipy, an oracle) answers inside its bracket at a
   sign change is assumed, not proved. *)
Theorem C10_lands : forall (gap : R -> R) (raises : R -> bool) (qimin qlast hsys hpump br hs hp : R),
  hsys <= hpump -> qimin < qlast -> raises qlast = false -> 0 < gap qlast ->
  Rabs (hs - hp) <= 1 / 1000000 * Rmax (Rabs hs) (Rabs hp) ->
  exists r vis, find_operating_point RN gap raises qimin qlast hsys hpump true br hs hp = (Ok r, vis) /\
    (r = br \/ (qimin <= r /\ secant RN gap raises qimin ((qimin + qlast) / 2) = (Some (r, true), vis))).
Proof. exact LC10.lands. Qed.
Print Assumptions C10_lands.

(* what "converged" gives for the secant search: the root is one secant update from the last evaluated flow b, within
   1.48e-8 of it *)
Theorem C10_converged : forall (gap : R -> R) (raises : R -> bool) (x0 x1 r : R) (vis : list R),
  secant RN gap raises x0 x1 = (Some (r, true), vis) ->
  exists a b, r = secant_step RN a (gap a) b (gap b) /\ Rabs (r - b) <= 148 / 10000000000 /\ gap b <> gap a.
Proof. exact LC10.secant_converged. Qed.
Print Assumptions C10_converged.

(* ... so the heads at that flow differ by at most the step tolerance times the local secant slope *)
Theorem C10_residual : forall (gap : R -> R) (a b r : R), gap b <> gap a -> b <> a ->
  r = b - gap b * (b - a) / (gap b - gap a) -> Rabs (r - b) <= 148 / 10000000000 ->
  Rabs (gap b) <= 148 / 10000000000 * Rabs ((gap b - gap a) / (b - a)).
Proof. exact LC10.residual_bound. Qed.
Print Assumptions C10_residual.

Theorem C10_secant_step : forall a fa b fb : R, fb <> fa -> fa <> 0 \/ fb <> 0 ->
  secant_step RN a fa b fb = b - fb * (b - a) / (fb - fa).
Proof. exact LC10.secant_step_formula. Qed.
Print Assumptions C10_secant_step.

(* the minimum-friction flow (after the repair of Pipeline.qimin): whatever the two bounded minimisations of scipy
   (oracles: rx, rf and fx, ff) return, the flow reported has a system head -- as the code evaluated it -- no higher than
   that at ANY tabulated flow at or above the lower bound of the search (the property allows 0.1 %; the code leaves none) *)
Theorem C10_qimin_not_above_tabulated : forall (flows : list R) (head : R -> R) (rx rf fx ff q : R),
  In q flows -> lower_bound RN flows <= q -> snd (qimin RN flows head rx rf fx ff) <= head q.
Proof. intros flows head rx rf fx ff q. exact (LC10.qimin_not_above_tabulated flows head rx rf fx ff q). Qed.
Print Assumptions C10_qimin_not_above_tabulated.
