(* Memo: semantics of functools.lru_cache around a function that may read mutable module state (the two
   documented switches) and may hand out a mutable container.  Generic in the key, value and environment
   types; eviction is arbitrary removal.  Hand-written; the instance (which functions are cached, what they
   read, what they return) is the GENERATED table Gen/Deps.v. *)
From Coq Require Import List Bool String.
Import ListNotations.

Section Memo.
Variables (K V E : Type).
Variable K_eqb : K -> K -> bool.
Variable F : K -> E -> V.          (* the function as written: a result from arguments and environment *)

Definition cache := list (K * V).

Fixpoint find (c : cache) (k : K) : option V :=
  match c with [] => None | (k', v) :: r => if K_eqb k' k then Some v else find r k end.

(* one call through the cache, in environment e *)
Definition call (c : cache) (k : K) (e : E) : cache * V :=
  match find c k with
  | Some v => (c, v)
  | None => ((k, F k e) :: c, F k e)
  end.

Inductive event : Type :=
| Call (k : K)                 (* call the cached function *)
| SetEnv (e : E)               (* assign the module switches *)
| Evict (n : nat)              (* the cache drops its n-th entry (maxsize reached, or cache_clear) *)
| Mutate (n : nat) (v : V).    (* a caller mutates, in place, the object stored in the n-th entry *)

Fixpoint remove_nth {A} (n : nat) (l : list A) : list A :=
  match n, l with
  | _, [] => []
  | O, _ :: r => r
  | S m, x :: r => x :: remove_nth m r
  end.
Fixpoint set_nth (n : nat) (v : V) (c : cache) : cache :=
  match n, c with
  | _, [] => []
  | O, (k, _) :: r => (k, v) :: r
  | S m, x :: r => x :: set_nth m v r
  end.

(* state = (cache, environment); output of a Call = the value returned *)
Definition step (s : cache * E) (ev : event) : (cache * E) * option V :=
  let '(c, e) := s in
  match ev with
  | Call k => let '(c', v) := call c k e in ((c', e), Some v)
  | SetEnv e' => ((c, e'), None)
  | Evict n => ((remove_nth n c, e), None)
  | Mutate n v => ((set_nth n v c, e), None)
  end.

Fixpoint run (s : cache * E) (evs : list event) : list (option V) :=
  match evs with
  | [] => []
  | ev :: r => let '(s', o) := step s ev in o :: run s' r
  end.

(* what a cache-free implementation returns *)
Fixpoint spec (e : E) (evs : list event) : list (option V) :=
  match evs with
  | [] => []
  | Call k :: r => Some (F k e) :: spec e r
  | SetEnv e' :: r => None :: spec e' r
  | _ :: r => None :: spec e r
  end.

Definition no_mutation (evs : list event) : Prop :=
  Forall (fun ev => match ev with Mutate _ _ => False | _ => True end) evs.
End Memo.

(* ---- the dependency table the translator extracts from the source ---- *)
Record entry : Type := mkEntry {
  e_name : string;
  e_cached : bool;                 (* decorated with functools.lru_cache *)
  e_globals : list string;         (* mutable module globals read, transitively through the call graph, NOT via parameters *)
  e_returns_mutable : bool }.      (* can return a dict (the object the cache would keep) *)

Definition entry_ok (x : entry) : bool :=
  negb (e_cached x) || (match e_globals x with [] => true | _ => false end && negb (e_returns_mutable x)).
Definition memo_ok (t : list entry) : bool := forallb entry_ok t.
