(* C19 -- stratified-flow cross-section geometry is consistent with a circular pipe.
   Statements only; proofs in Lemmas/LC19.v.  stratified.areas / perimeters / beta and the Arel_to_beta table
   are regenerated from the Python source on every run. *)
From Coq Require Import Reals List Bool Sorted.
From DHV Require Import NumOps RInst Interp LC18 LC19.
From DHV Require Constants Tables Stratified.
Import ListNotations.
Local Open Scope R_scope.

Theorem C19_areas : forall Dp Cvs : R, let '(Ap, A1, A2) := Stratified.areas RN Dp Cvs in
  A1 + A2 = Ap /\ A2 = Ap * (Cvs / Constants.Cvb RN) /\ Ap = PI * (Dp / 2) ^ 2.
Proof. exact LC19.areas_sum. Qed.
Print Assumptions C19_areas.

Theorem C19_perimeters : forall Dp Cvs : R, let '(Op, O1, O12, O2) := Stratified.perimeters RN Dp Cvs in
  O1 + O2 = Op /\ Op = PI * Dp /\ O12 = Dp * sin (Stratified.beta RN Cvs) /\ O1 = (PI - Stratified.beta RN Cvs) * Dp.
Proof. exact LC19.perimeters_sum. Qed.
Print Assumptions C19_perimeters.

(* all table nodes (exhaustive): within 1e-5 of the circular-segment area fraction *)
Theorem C19_nodes : Forall (fun p => Rabs ((snd p - sin (snd p) * cos (snd p)) / PI - fst p) <= 1 / 100000) (Tables.Arel_to_beta RN).
Proof. exact LC19.nodes_accurate. Qed.
Print Assumptions C19_nodes.

(* every area fraction in [0, 1] (not a grid: all reals) is inside the table and the interpolated half-angle
   reproduces it within 0.0075 *)
Theorem C19_between : forall x : R, 0 <= x <= 1 ->
  exists b, lookup RN (Tables.Arel_to_beta RN) Tables.Arel_to_beta_xlo Tables.Arel_to_beta_xhi (Tables.Arel_to_beta_tol RN) x = Some b
            /\ Rabs ((b - sin b * cos b) / PI - x) <= 75 / 10000.
Proof. exact LC19.beta_accurate. Qed.
Print Assumptions C19_between.

(* beta(Cvs) is that lookup at Cvs/Cvb *)
Theorem C19_beta_is_lookup : forall Cvs : R,
  Stratified.beta RN Cvs = lookup_or_fail RN (Tables.Arel_to_beta RN) Tables.Arel_to_beta_xlo Tables.Arel_to_beta_xhi
                             (Tables.Arel_to_beta_tol RN) (Cvs / Constants.Cvb RN).
Proof. reflexivity. Qed.
Print Assumptions C19_beta_is_lookup.

(* monotone from 0 to pi *)
Theorem C19_monotone :
  StronglySorted (fun p q : R * R => fst p < fst q /\ snd p < snd q) (Tables.Arel_to_beta RN) /\
  hd (1, 1) (Tables.Arel_to_beta RN) = (0 / 100000, 0 / 10000000) /\
  fst (last (Tables.Arel_to_beta RN) (0, 0)) = 100000 / 100000 /\
  Rabs (snd (last (Tables.Arel_to_beta RN) (0, 0)) - PI) < 1 / 10000000 /\
  (forall x1 y1 x2 y2 a b, x1 < x2 -> y1 < y2 -> a < b ->
     (y2 - y1) / (x2 - x1) * (a - x1) + y1 < (y2 - y1) / (x2 - x1) * (b - x1) + y1).
Proof.
  split; [exact LC19.rows_monotone|]. destruct LC19.rows_ends as (A & B & C).
  split; [exact A|]. split; [exact B|]. split; [exact C|exact LC19.line_increasing].
Qed.
Print Assumptions C19_monotone.
