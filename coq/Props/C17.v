(* C17 -- the viewer session stays consistent under any sequence of edits.
   Statements only; proofs in Lemmas/LC17.v, Lemmas/LC17b.v and Lemmas/LC17u.v.  Model: Models/Viewer.v (check_value, every update_*
   callback, the up/down buttons, update_inputs, choose_pipeline / choose_units, the change-only firing of bokeh
   widgets), executed against the real main.py + SystemTab.py under a bokeh double on event sequences on every run.
   Every theorem holds for ANY text formatting functions and ANY float() parser (they are universally quantified). *)
From Coq Require Import Reals List Bool String ZArith.
From DHV Require Import NumOps RInst Fracs SlurryCalc SlurryState Viewer Units LC17 LC17u LC17b.
Import ListNotations.
Local Open Scope R_scope.

(* check_value: an entry that parses to a number inside [lo, hi] is returned and nothing is touched; anything else
   (not a number, or outside the range) returns the previous value and restores the text to fmt(prev) *)
Theorem C17_check_value : forall (parse : string -> option R) (setv : widget -> string -> vstate (T:=R) -> vstate (T:=R))
    (v : vstate (T:=R)) (w : widget) (lo hi prev : R) (fmt : R -> string),
  (exists x, parse (text v w) = Some x /\ lo <= x <= hi /\ check_value RN parse setv v w lo hi prev fmt = (v, x)) \/
  ((parse (text v w) = None \/ exists x, parse (text v w) = Some x /\ ~ (lo <= x <= hi)) /\
   check_value RN parse setv v w lo hi prev fmt = (setv w (fmt prev) v, prev)).
Proof. exact LC17.check_cases. Qed.
Print Assumptions C17_check_value.

(* an accepted entry becomes the model's value -- and no other parameter changes.  [pre] reads the bounds the box
   documents in the current state; [put] is the parameter record with exactly the box's field(s) replaced (Dp: reset to
   the last section diameter when the entry is not a pipeline diameter; rhos: rhoi follows so that Cvi is kept; rhom:
   Cv = (x - rhol)/(rhos - rhol); D15/D85: no parameter, only the grading) *)
Theorem C17_accept : forall (sf sq : bool) (fmt3 fmt0 : R -> string) (fmtZ : Z -> string) (parse : string -> option R)
    (fuel : nat) (w : widget) (v : vstate (T:=R)) (x : R), K v ->
  let '(_, (lo, hi), _) := pre sf sq w v in
  parse (text v w) = Some x -> lo <= x <= hi ->
  par (callback RN sf sq fmt3 fmt0 fmtZ parse (S fuel) w v) = put w (par v) x (diams (cur v)).
Proof. exact LC17.entry_accept. Qed.
Print Assumptions C17_accept.

(* a rejected entry leaves every model parameter as it was (the re-entrant callback fired by the restored text
   included) *)
Theorem C17_reject : forall (sf sq : bool) (fmt3 fmt0 : R -> string) (fmtZ : Z -> string) (parse : string -> option R)
    (fuel : nat) (w : widget) (v : vstate (T:=R)), K v ->
  let '(_, (lo, hi), _) := pre sf sq w v in
  (parse (text v w) = None \/ exists x, parse (text v w) = Some x /\ ~ (lo <= x <= hi)) ->
  par (callback RN sf sq fmt3 fmt0 fmtZ parse (S fuel) w v) = par v.
Proof. exact LC17.entry_reject. Qed.
Print Assumptions C17_reject.

(* frame: the callback of box w keeps the bounds, changes only its own model fields, and leaves the other pipelines,
   the selection and the unit choice alone -- whatever the text and however deep the re-entry; its last conjunct says the
   new state is reached from the old one by slurry-object operations, text rewrites and refreshes only *)
Theorem C17_frame : forall (sf sq : bool) (fmt3 fmt0 : R -> string) (fmtZ : Z -> string) (parse : string -> option R)
    (fuel : nat) (w : widget) (v : vstate (T:=R)), K v -> Rel sf sq fmt3 fmtZ w v (callback RN sf sq fmt3 fmt0 fmtZ parse fuel w v).
Proof. exact LC17.callback_rel. Qed.
Print Assumptions C17_frame.

(* bounds: after EVERY event of EVERY event sequence, in every pipeline of the menu: 25 <= Dp*1000 <= 1500,
   1.5 <= rhos <= 7, Cv <= 0.5, and Dp is one of the pipeline's section diameters *)
Theorem C17_bounds : forall (sf sq : bool) (fmt3 fmt0 : R -> string) (fmtZ : Z -> string) (parse : string -> option R)
    (es : list event) (v : vstate (T:=R)), G v -> Forall G (run_events RN sf sq fmt3 fmt0 fmtZ parse v es).
Proof. exact LC17.run_G. Qed.
Print Assumptions C17_bounds.

Theorem C17_bounds_meaning : forall v : vstate (T:=R), G v ->
  let p := par v in
  25 <= p_Dp p * 1000 <= 1500 /\ 3 / 2 <= p_rhos p <= 7 /\ p_Cv p <= 1 / 2 /\ In (p_Dp p) (diams (cur v)).
Proof. exact LC17.G_meaning. Qed.
Print Assumptions C17_bounds_meaning.

(* the lower bound Cv >= 0.01 is kept by every event except a mixture-density entry ... *)
Theorem C17_Cv_lower : forall (sf sq : bool) (fmt3 fmt0 : R -> string) (fmtZ : Z -> string) (parse : string -> option R)
    (v : vstate (T:=R)) (e : event), G v -> CvLoAll v -> (forall s, e <> EText WRhom s) ->
  CvLoAll (fire RN sf sq fmt3 fmt0 fmtZ parse v e).
Proof. exact LC17.fire_CvLo. Qed.
Print Assumptions C17_Cv_lower.

(* ... whose exact escape condition is: an accepted density x gives Cv = (x - rhol)/(rhos - rhol), at least 0.01 iff
   x >= rhol + (rhos - rhol)/100 (the box's own minimum 1.05 does not ensure it for dense solids) *)
Theorem C17_rhom_escape : forall (sf sq : bool) (fmt3 fmt0 : R -> string) (fmtZ : Z -> string) (parse : string -> option R)
    (fuel : nat) (v : vstate (T:=R)) (x : R), K v -> parse (text v WRhom) = Some x ->
  105 / 100 <= x <= 5 / 10 * (p_rhos (par v) - p_rhol (par v)) + p_rhol (par v) ->
  let c := p_Cv (par (callback RN sf sq fmt3 fmt0 fmtZ parse (S fuel) WRhom v)) in
  c = (x - p_rhol (par v)) / (p_rhos (par v) - p_rhol (par v)) /\
  (1 / 100 <= c <-> p_rhol (par v) + (p_rhos (par v) - p_rhol (par v)) / 100 <= x).
Proof. exact LC17.rhom_entry_Cv. Qed.
Print Assumptions C17_rhom_escape.

(* text boxes: after every event every editable box shows the formatted current model value (and the fluid radio
   button the current fluid); the state built at import does too *)
Theorem C17_texts : forall (sf sq : bool) (fmt3 fmt0 : R -> string) (fmtZ : Z -> string) (parse : string -> option R)
    (v : vstate (T:=R)) (e : event), G v -> shown fmt3 fmtZ v -> shown fmt3 fmtZ (fire RN sf sq fmt3 fmt0 fmtZ parse v e).
Proof. exact LC17.fire_shown. Qed.
Print Assumptions C17_texts.

Theorem C17_texts_start : forall (sf sq : bool) (fmt3 : R -> string) (fmtZ : Z -> string) (ps : list (pl (T:=R))) (k : nat)
    (p0 : pl (T:=R)), shown fmt3 fmtZ (start RN sf sq fmt3 fmtZ ps k p0).
Proof. exact LC17.start_shown. Qed.
Print Assumptions C17_texts_start.

(* rewriting the boxes does not re-trigger: a restored text re-enters its callback at most once, so the bounded
   re-entry of the model never runs out (for every event, from every state) *)
Theorem C17_no_reentry : forall (sf sq : bool) (fmt3 fmt0 : R -> string) (fmtZ : Z -> string) (parse : string -> option R)
    (v : vstate (T:=R)) (e : event), overflow (fire RN sf sq fmt3 fmt0 fmtZ parse v e) = overflow v.
Proof. exact LC17.fire_no_overflow. Qed.
Print Assumptions C17_no_reentry.

(* units: every US factor of unit_conv.py is within 0.2 % of the exact conversion; the SI factors are 1 / 1000 /
   9.804139 / 60 *)
Theorem C17_units_US :
  within (2 / 1000) us_len ex_len /\ within (2 / 1000) us_dia ex_dia /\ within (2 / 1000) us_vol ex_vol /\
  within (2 / 1000) us_flow ex_flow /\ within (2 / 1000) us_power ex_power /\ within (2 / 1000) us_pressure ex_pressure /\
  us_rot_speed = 60.
Proof. exact LC17u.us_factors. Qed.
Print Assumptions C17_units_US.

Theorem C17_units_SI :
  si_len = 1 /\ si_dia = 1000 /\ si_vol = 1 /\ si_flow = 1 /\ si_power = 1 /\ si_pressure = 9804139 / 1000000 /\ si_rot_speed = 60.
Proof. exact LC17u.si_factors. Qed.
Print Assumptions C17_units_SI.

(* plotted data: the tables the viewer pushes to its data sources are read from the slurry object's cache.  [current]
   says the cache is clean and holds exactly generate_curves of the CURRENT parameters and the CURRENT stored grading
   (that the stored grading is itself the one a fresh object would build is C07_fresh); [coh] is the coherence of a
   cache that may be dirty.  After every event -- accepted or rejected entry, button, fluid, units or pipeline switch
   -- the shown tables are current, and every saved pipeline's slurry stays coherent, so switching back shows current
   tables too.  main.py reads slurry.curves once at import (the initial figures): that is the ReadCurves below. *)
Theorem C17_plots_current : forall (sf sq : bool) (fmt3 fmt0 : R -> string) (fmtZ : Z -> string) (parse : string -> option R)
    (v : vstate (T:=R)) (e : event), G v -> Qv (coh sf sq) v -> current sf sq (slurry v) ->
  current sf sq (slurry (fire RN sf sq fmt3 fmt0 fmtZ parse v e)) /\ Qv (coh sf sq) (fire RN sf sq fmt3 fmt0 fmtZ parse v e).
Proof. exact LC17b.fire_current. Qed.
Print Assumptions C17_plots_current.

Theorem C17_plots_current_session : forall (sf sq : bool) (fmt3 fmt0 : R -> string) (fmtZ : Z -> string)
    (parse : string -> option R) (v : vstate (T:=R)) (es : list event), G v -> Qv (coh sf sq) v ->
  Forall (fun v' => current sf sq (slurry v') /\ Qv (coh sf sq) v')
         (run_events RN sf sq fmt3 fmt0 fmtZ parse (sdo RN sf sq v ReadCurves) es).
Proof. exact LC17b.session_current. Qed.
Print Assumptions C17_plots_current_session.

(* a refresh (update_source_data) of a coherent slurry always ends current, whatever was cached before *)
Theorem C17_refresh_current : forall (sf sq : bool) (fmt3 : R -> string) (fmtZ : Z -> string) (u : vstate (T:=R)),
  K u -> coh sf sq (slurry u) -> current sf sq (slurry (update_source_data RN sf sq fmt3 fmtZ u)).
Proof. exact LC17b.usd_current. Qed.
Print Assumptions C17_refresh_current.

Theorem C17_plots_nonvacuous : forall sf sq, exists v : vstate (T:=R), G v /\ Qv (coh sf sq) v.
Proof. exact LC17b.coh_example. Qed.
Print Assumptions C17_plots_nonvacuous.

(* the premises are satisfiable: the shipped test pipeline's start state *)
Theorem C17_nonvacuous : exists v : vstate (T:=R), G v /\ CvLoAll v.
Proof. exact LC17.G_example. Qed.
Print Assumptions C17_nonvacuous.
