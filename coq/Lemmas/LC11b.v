(* C11, torque- and power-limited speed search: the returned speed never exceeds the set speed.
   The damped iteration  n <- n * sqrt(Pavail(n) / P(n))  is studied through the headroom ratio q(n) = Pavail(n)/P(n).
   If on (0, n0] (n0 the set speed) q is positive, non-increasing, and q(n) n^4 is non-decreasing -- i.e. the required
   power does not fall with speed and grows at most like n^4 relative to the available power: affinity law n^3 times
   a QP curve factor -- then every iterate lies in (0, n0]: above the balance point the step goes down, but not below
   the mirror image y^2/n of any balanced speed y; below it the step goes up, but not beyond the mirror image of
   any over-loaded speed; the two families of mirror bounds meet at the balance point (least upper bound). *)
From Coq Require Import Reals Lra List Bool.
From DHV Require Import NumOps RInst Pump LC11 LSettle.
Local Open Scope R_scope.

Lemma sq_le_inv a b : 0 <= a -> 0 <= b -> a * a <= b * b -> a <= b.
Proof. intros Ha Hb H. destruct (Rle_lt_dec a b) as [L|L]; [exact L|exfalso; nra]. Qed.
Lemma sq_lt_inv a b : 0 <= a -> 0 <= b -> a * a < b * b -> a < b.
Proof. intros Ha Hb H. destruct (Rlt_le_dec a b) as [L|L]; [exact L|exfalso; nra]. Qed.

Section Orbit.
Variable q : R -> R.
Variable n0 : R.
Hypothesis Hn0 : 0 < n0.
Hypothesis Q1 : forall n, 0 < n <= n0 -> 0 < q n.
Hypothesis Q2 : forall a b, 0 < a -> a <= b -> b <= n0 -> q b <= q a.
Hypothesis Q3 : forall a b, 0 < a -> a <= b -> b <= n0 -> q a * a ^ 4 <= q b * b ^ 4.
Hypothesis Hstart : q n0 < 1.

Definition T (n : R) : R := n * sqrt (q n).
Definition Lo (y : R) : Prop := 0 < y <= n0 /\ 1 <= q y.
Definition J (n : R) : Prop := 0 < n <= n0 /\ forall y, Lo y -> y * y <= n * n0.

Lemma J_start : J n0.
Proof. split; [lra|]. intros y [[Hy1 Hy2] _]. nra. Qed.

Lemma T_sq n : 0 < n <= n0 -> (T n * n) * (T n * n) = q n * n ^ 4.
Proof. intro H. unfold T. pose proof (Q1 n H) as P. pose proof (sqrt_sqrt (q n) ltac:(lra)) as S. nra. Qed.

Lemma T_pos n : 0 < n <= n0 -> 0 < T n.
Proof. intro H. unfold T. apply Rmult_lt_0_compat; [lra|]. apply sqrt_lt_R0. apply Q1; exact H. Qed.

(* over-loaded speed: the step goes down, and stays above the mirror image of every balanced speed *)
Lemma step_above n : J n -> q n < 1 -> J (T n).
Proof.
  intros [Hn HJ] Hq. pose proof (T_pos n Hn) as Pm. pose proof (Q1 n Hn) as Pq.
  assert (Lt : T n < n).
  { unfold T. assert (sqrt (q n) < 1) by (rewrite <- sqrt_1; apply sqrt_lt_1_alt; lra). nra. }
  split; [lra|]. intros y [[Hy1 Hy2] Hy3].
  assert (Hyn : y < n).
  { destruct (Rlt_le_dec y n) as [L|L]; [exact L|]. pose proof (Q2 n y ltac:(lra) L Hy2). lra. }
  pose proof (Q3 y n Hy1 ltac:(lra) ltac:(lra)) as K. pose proof (T_sq n Hn) as S.
  assert (P4 : 0 < y ^ 4) by (apply pow_lt; lra).
  assert (A : (y * y) * (y * y) <= (T n * n) * (T n * n)).
  { rewrite S. replace (y * y * (y * y)) with (y ^ 4) by ring.
    assert (1 * y ^ 4 <= q y * y ^ 4) by (apply Rmult_le_compat_r; lra). lra. }
  pose proof (sq_le_inv (y * y) (T n * n) ltac:(nra) ltac:(nra) A). nra.
Qed.

(* balanced or under-loaded speed: the step goes up, but not beyond the set speed *)
Lemma step_below n : J n -> 1 <= q n -> J (T n).
Proof.
  intros [Hn HJ] Hq. pose proof (T_pos n Hn) as Pm.
  assert (Ge : n <= T n).
  { unfold T. assert (1 <= sqrt (q n)) by (rewrite <- sqrt_1; apply sqrt_le_1_alt; lra). nra. }
  assert (LoN : Lo n) by (split; assumption).
  destruct (completeness Lo) as [s [Ub Lub]].
  { exists n0. intros y [[_ Hy] _]. exact Hy. }
  { exists n. exact LoN. }
  assert (Hsn : n <= s) by (apply Ub; exact LoN).
  assert (Hs0 : s <= n0) by (apply Lub; intros y [[_ Hy] _]; exact Hy).
  (* (a) s^2 <= n n0 : sqrt(n n0) is an upper bound of the balanced speeds *)
  assert (Sa : s * s <= n * n0).
  { set (r := sqrt (n * n0)). assert (Pr : 0 <= n * n0) by nra. assert (Er : r * r = n * n0) by (apply sqrt_sqrt; exact Pr).
    assert (s <= r).
    { apply Lub. intros y Hy. pose proof (HJ y Hy) as B. destruct Hy as [[Hy1 _] _].
      apply sq_le_inv; [lra|apply sqrt_pos|rewrite Er; exact B]. }
    assert (s * s <= r * r) by (apply Rmult_le_compat; lra). lra. }
  (* (b) T n * n <= s^2 : every speed above s is over-loaded *)
  assert (Ov : forall u, s < u <= n0 -> T n * n < u * u).
  { intros u [Hu1 Hu2].
    assert (Qu : q u < 1).
    { destruct (Rlt_le_dec (q u) 1) as [L|L]; [exact L|]. assert (Lo u) by (split; [lra|exact L]). pose proof (Ub u H). lra. }
    pose proof (Q3 n u ltac:(lra) ltac:(lra) Hu2) as K. pose proof (T_sq n Hn) as S.
    assert (P4 : 0 < u ^ 4) by (apply pow_lt; lra).
    assert (A : (T n * n) * (T n * n) < (u * u) * (u * u)).
    { rewrite S. replace (u * u * (u * u)) with (u ^ 4) by ring.
      assert (q u * u ^ 4 < 1 * u ^ 4) by (apply Rmult_lt_compat_r; assumption). lra. }
    apply sq_lt_inv; [nra|nra|exact A]. }
  assert (Sb : T n * n <= s * s).
  { destruct (Req_EM_T s n0) as [E|N].
    - (* s = n0: the set speed itself is over-loaded *)
      pose proof (Q3 n n0 ltac:(lra) ltac:(lra) ltac:(lra)) as K. pose proof (T_sq n Hn) as S.
      assert (P4 : 0 < n0 ^ 4) by (apply pow_lt; lra).
      assert (A : (T n * n) * (T n * n) < (n0 * n0) * (n0 * n0)).
      { rewrite S. replace (n0 * n0 * (n0 * n0)) with (n0 ^ 4) by ring.
        assert (q n0 * n0 ^ 4 < 1 * n0 ^ 4) by (apply Rmult_lt_compat_r; assumption). lra. }
      pose proof (sq_lt_inv (T n * n) (n0 * n0) ltac:(nra) ltac:(nra) A). rewrite E. lra.
    - destruct (Rle_lt_dec (T n * n) (s * s)) as [L|L]; [exact L|exfalso].
      set (r := sqrt (T n * n)). assert (Pr : 0 <= T n * n) by nra. assert (Er : r * r = T n * n) by (apply sqrt_sqrt; exact Pr).
      assert (Hr : s < r) by (apply sq_lt_inv; [lra|apply sqrt_pos|rewrite Er; exact L]).
      set (u := Rmin n0 ((s + r) / 2)).
      assert (U1 : s < u) by (unfold u; apply Rmin_glb_lt; lra).
      assert (U2 : u <= n0) by (unfold u; apply Rmin_l).
      assert (U3 : u <= (s + r) / 2) by (unfold u; apply Rmin_r).
      pose proof (Ov u (conj U1 U2)) as C. assert (u * u < r * r) by nra. lra. }
  split; [split; [lra|]|].
  - apply (Rmult_le_reg_r n); [lra|]. nra.
  - intros y Hy. pose proof (HJ y Hy). nra.
Qed.

Lemma step n : J n -> J (T n).
Proof. intro H. destruct (Rlt_le_dec (q n) 1) as [L|L]; [apply step_above|apply step_below]; assumption. Qed.

End Orbit.

(* ---------- the damped loop of PumpObj.find_torque/power_limited_speed ---------- *)
Section Damped.
Variables (p : pump (T:=R)) (Q : R) (w tq : bool).
Let n0 := current_speed p.
Let Pw (n : R) : R := power_required RN p Q n w.
Let q (n : R) : R := PA p tq n / Pw n.
Hypothesis Hn0 : 0 < n0.
Hypothesis HP : forall n, 0 < n <= n0 -> 0 < Pw n.
Hypothesis Q1 : forall n, 0 < n <= n0 -> 0 < q n.
Hypothesis Q2 : forall a b, 0 < a -> a <= b -> b <= n0 -> q b <= q a.
Hypothesis Q3 : forall a b, 0 < a -> a <= b -> b <= n0 -> q a * a ^ 4 <= q b * b ^ 4.
Hypothesis Hstart : q n0 < 1.

Lemma damped_bounded : forall fuel n Pn Pa r,
  damped RN fuel p Q w tq n Pn Pa = Some r -> Pn = Pw n -> Pa = PA p tq n -> J q n0 n -> 0 <= r <= n0.
Proof.
  induction fuel as [|fuel IH]; intros n Pn Pa r H EP EPa HJ; [discriminate H|].
  cbn [damped] in H. toR_in H. destruct (within RN (Pa - Pn)).
  - injection H as <-. destruct HJ as [Hn _]. lra.
  - cbv zeta in H. pose proof HJ as [Hn _]. pose proof (Q1 n Hn) as Pq.
    assert (E : n * Rpower (Pa / Pn) (5 / 10) = T q n).
    { unfold T. rewrite EP, EPa. fold (q n). rewrite Rpower_half by exact Pq. reflexivity. }
    rewrite E in H. destruct (Rltb (1 / 60) (T q n)).
    + apply (IH (T q n) _ _ r H); [reflexivity| |apply (step q n0 Hn0 Q1 Q2 Q3 Hstart); exact HJ].
      destruct tq; [reflexivity|]. rewrite EPa. reflexivity.
    + injection H as <-. change (nfail RN 5) with 0. lra.
Qed.

End Damped.

(* power-limited mode: available power constant *)
Theorem power_limited_not_above (p : pump (T:=R)) (Q : R) (w : bool) (fuel : nat) (r : R) :
  let n0 := current_speed p in let Pw := fun n => power_required RN p Q n w in
  0 < n0 -> 0 < avail_power p -> (forall n, 0 < n <= n0 -> 0 < Pw n) ->
  (forall a b, 0 < a -> a <= b -> b <= n0 -> Pw a <= Pw b) ->
  (forall a b, 0 < a -> a <= b -> b <= n0 -> Pw b * a ^ 4 <= Pw a * b ^ 4) ->
  find_power_limited_speed RN fuel p Q w = Some r -> 0 <= r <= n0.
Proof.
  cbv zeta. intros Hn0 HA HP M1 M4. unfold find_power_limited_speed. cbv zeta. toR.
  destruct (Rleb (power_required RN p Q (current_speed p) w) (avail_power p)) eqn:B; intro H.
  - injection H as <-. lra.
  - assert (Lt : avail_power p < power_required RN p Q (current_speed p) w).
    { unfold Rleb in B. destruct (Rle_dec _ _); [discriminate B|lra]. }
    set (n0 := current_speed p) in *. set (Pw := fun n => power_required RN p Q n w) in *.
    assert (Q1 : forall n, 0 < n <= n0 -> 0 < PA p false n / Pw n).
    { intros n Hn. unfold PA. apply Rdiv_lt_0_compat; [exact HA|apply HP; exact Hn]. }
    assert (Q2 : forall a b, 0 < a -> a <= b -> b <= n0 -> PA p false b / Pw b <= PA p false a / Pw a).
    { intros a b Ha Hab Hb. unfold PA. pose proof (HP a ltac:(lra)). pose proof (HP b ltac:(lra)). pose proof (M1 a b Ha Hab Hb).
      unfold Rdiv. apply Rmult_le_compat_l; [lra|]. apply Rinv_le_contravar; lra. }
    assert (Q3 : forall a b, 0 < a -> a <= b -> b <= n0 -> PA p false a / Pw a * a ^ 4 <= PA p false b / Pw b * b ^ 4).
    { intros a b Ha Hab Hb. unfold PA. pose proof (HP a ltac:(lra)) as Pa. pose proof (HP b ltac:(lra)) as Pb. pose proof (M4 a b Ha Hab Hb) as K.
      apply (Rmult_le_reg_r (Pw a * Pw b)); [apply Rmult_lt_0_compat; assumption|].
      replace (avail_power p / Pw a * a ^ 4 * (Pw a * Pw b)) with (avail_power p * (Pw b * a ^ 4)) by (field; lra).
      replace (avail_power p / Pw b * b ^ 4 * (Pw a * Pw b)) with (avail_power p * (Pw a * b ^ 4)) by (field; lra).
      apply Rmult_le_compat_l; lra. }
    assert (HS : PA p false n0 / Pw n0 < 1).
    { unfold PA. pose proof (HP n0 ltac:(lra)) as P0. apply (Rmult_lt_reg_r (Pw n0)); [exact P0|].
      replace (avail_power p / Pw n0 * Pw n0) with (avail_power p) by (field; lra). unfold Pw. lra. }
    apply (damped_bounded p Q w false Hn0 Q1 Q2 Q3 HS fuel n0 _ _ r H); [reflexivity|reflexivity|].
    apply J_start; [exact Hn0].
Qed.

(* torque-limited mode: available power proportional to the speed *)
Theorem torque_limited_not_above (p : pump (T:=R)) (Q : R) (w : bool) (fuel : nat) (r : R) :
  let n0 := current_speed p in let Pw := fun n => power_required RN p Q n w in let Pa := fun n => power_available RN p n in
  0 < n0 -> (forall n, 0 < n <= n0 -> 0 < Pw n /\ 0 < Pa n) ->
  (forall a b, 0 < a -> a <= b -> b <= n0 -> Pa b * Pw a <= Pa a * Pw b) ->
  (forall a b, 0 < a -> a <= b -> b <= n0 -> Pa a * Pw b * a ^ 4 <= Pa b * Pw a * b ^ 4) ->
  find_torque_limited_speed RN fuel p Q w = Some r -> 0 <= r <= n0.
Proof.
  cbv zeta. intros Hn0 HP M1 M4. unfold find_torque_limited_speed. cbv zeta. toR.
  destruct (Rleb (power_required RN p Q (current_speed p) w) (power_available RN p (current_speed p))) eqn:B; intro H.
  - injection H as <-. lra.
  - assert (Lt : power_available RN p (current_speed p) < power_required RN p Q (current_speed p) w).
    { unfold Rleb in B. destruct (Rle_dec _ _); [discriminate B|lra]. }
    set (n0 := current_speed p) in *. set (Pw := fun n => power_required RN p Q n w) in *.
    assert (Q1 : forall n, 0 < n <= n0 -> 0 < PA p true n / Pw n).
    { intros n Hn. unfold PA. destruct (HP n Hn). apply Rdiv_lt_0_compat; assumption. }
    assert (Q2 : forall a b, 0 < a -> a <= b -> b <= n0 -> PA p true b / Pw b <= PA p true a / Pw a).
    { intros a b Ha Hab Hb. unfold PA. destruct (HP a ltac:(lra)) as [Pa _]. destruct (HP b ltac:(lra)) as [Pb _]. pose proof (M1 a b Ha Hab Hb) as K.
      apply (Rmult_le_reg_r (Pw a * Pw b)); [apply Rmult_lt_0_compat; assumption|].
      replace (power_available RN p b / Pw b * (Pw a * Pw b)) with (power_available RN p b * Pw a) by (field; lra).
      replace (power_available RN p a / Pw a * (Pw a * Pw b)) with (power_available RN p a * Pw b) by (field; lra). exact K. }
    assert (Q3 : forall a b, 0 < a -> a <= b -> b <= n0 -> PA p true a / Pw a * a ^ 4 <= PA p true b / Pw b * b ^ 4).
    { intros a b Ha Hab Hb. unfold PA. destruct (HP a ltac:(lra)) as [Pa _]. destruct (HP b ltac:(lra)) as [Pb _]. pose proof (M4 a b Ha Hab Hb) as K.
      apply (Rmult_le_reg_r (Pw a * Pw b)); [apply Rmult_lt_0_compat; assumption|].
      replace (power_available RN p a / Pw a * a ^ 4 * (Pw a * Pw b)) with (power_available RN p a * Pw b * a ^ 4) by (field; lra).
      replace (power_available RN p b / Pw b * b ^ 4 * (Pw a * Pw b)) with (power_available RN p b * Pw a * b ^ 4) by (field; lra). exact K. }
    assert (HS : PA p true n0 / Pw n0 < 1).
    { unfold PA. destruct (HP n0 ltac:(lra)) as [P0 _]. apply (Rmult_lt_reg_r (Pw n0)); [exact P0|].
      replace (power_available RN p n0 / Pw n0 * Pw n0) with (power_available RN p n0) by (field; lra). unfold Pw. lra. }
    apply (damped_bounded p Q w true Hn0 Q1 Q2 Q3 HS fuel n0 _ _ r H); [reflexivity|reflexivity|].
    apply J_start; [exact Hn0].
Qed.
