#!/venv/bin/python
"""harmless refactorings: each must keep the related checks at exit 0 (or, at worst, be reported with no-failing-input-found)"""
import os, re, subprocess, sys
VERIF = sys.argv[1] if len(sys.argv) > 1 else os.path.dirname(os.path.dirname(os.path.dirname(os.path.abspath(__file__))))
H = [
 ('h1', ['C02', 'C04'], 'src/DHLLDV/heterogeneous.py', lambda s: re.sub(r'\bvt\b', 'v_term', s), 'rename local vt -> v_term throughout heterogeneous.py'),
 ('h2', ['C03', 'C04'], 'src/DHLLDV/homogeneous.py', lambda s: s.replace("    return lmbda * vls**2 / (2 * gravity * Dp)  # Eqn 8.2-6 / 8.7-5", "    two_g_D = 2 * gravity * Dp\n    return lmbda * vls**2 / two_g_D  # Eqn 8.2-6 / 8.7-5", 1) if "    return lmbda * vls**2 / (2 * gravity * Dp)  # Eqn 8.2-6 / 8.7-5" in s else None, 'hoist 2 g Dp into a local in fluid_head_loss'),
 ('h3', ['C09', 'C14'], 'src/DHLLDV/PipeObj.py', lambda s: s.replace("                Hfit_m += p.total_K * Hv * self.slurry.rhom\n                Hfit_l += p.total_K * Hv * self.slurry.rhol\n", "                Hfit_l += p.total_K * Hv * self.slurry.rhol\n                Hfit_m += p.total_K * Hv * self.slurry.rhom\n"), 'swap two independent statements in calc_system_head'),
 ('h4', ['C17'], 'DHLLDV_viewer/main.py', lambda s: s.replace("    Cvi = (slurry.rhoi - slurry.rhol) / (slurry.rhos - slurry.rhol)\n", "    cvi_before = (slurry.rhoi - slurry.rhol) / (slurry.rhos - slurry.rhol)\n").replace("    slurry.rhoi = Cvi * (slurry.rhos - slurry.rhol) + slurry.rhol\n", "    slurry.rhoi = cvi_before * (slurry.rhos - slurry.rhol) + slurry.rhol\n"), 'rename a local in update_rhos'),
 ('h5', ['C01', 'C05'], 'src/DHLLDV/DHLLDV_framework.py', lambda s: s.replace("    if Erhg_obj[regime] < Erhg_obj['Ho']:\n        regime = 'Ho'\n", "    if Erhg_obj['Ho'] > Erhg_obj[regime]:\n        regime = 'Ho'\n"), 'a < b written as b > a in the selection'),
 ('h6', ['C07', 'C12'], 'src/DHLLDV/SlurryObj.py', lambda s: s.replace("class Slurry", "# harmless comment\nclass Slurry", 1), 'add a comment'),
 ('h7', ['C18'], 'src/DHLLDV/DHLLDV_Utils.py', lambda s: s.replace("                x1 = keys[index-1]\n                x2 = keys[index]\n", "                x2 = keys[index]\n                x1 = keys[index-1]\n"), 'swap two independent assignments in interpDict'),
 ('h9', ['C20'], 'src/Wilson/Wilson_V50.py', lambda s: re.sub(r'\bff_this\b', 'ff_new', s), 'rename the loop variable ff_this -> ff_new in V50'),
 ('h10', ['C11'], 'src/DHLLDV/PumpObj.py', lambda s: s.replace("            n_new *= (Pavail / P) ** 0.5\n", "            n_new = n_new * (Pavail / P) ** 0.5\n"), 'augmented assignment written out in both damped iterations'),
 ('h11', ['C13', 'C19'], 'src/DHLLDV/stratified.py', lambda s: s.replace("    DH1 = 4*A1/(O1 + O12)   # Eqn 8.4-8\n", "    wetted = O1 + O12\n    DH1 = 4*A1/wetted   # Eqn 8.4-8\n", 1), 'introduce a local for the wetted perimeter in fb_pressure_loss'),
 ('h12', ['C12', 'C07'], 'src/DHLLDV/SlurryObj.py', lambda s: s.replace("        if frac <= 0 or frac >= 1.0:\n", "        if frac >= 1.0 or frac <= 0:\n", 1), 'swap the operands of an or in get_dx'),
 ('h8', ['C20'], 'src/Wilson/Wilson_V50.py', lambda s: s.replace("    return max(0.25, min(1.7, _M))", "    clipped = min(1.7, _M)\n    return max(0.25, clipped)"), 'introduce a local in M'),
]
ONLY = set(os.environ.get('HARMLESS_ONLY', '').split(',')) - {''}
for hid, props, rel, f, what in H:
    if ONLY and hid not in ONLY:
        continue
    wt = f'/tmp/wt-h-{hid}-{os.getpid()}'
    subprocess.run(f'git -C /repo worktree add -q {wt} HEAD', shell=True)
    try:
        p = os.path.join(wt, rel); s = open(p).read(); o = f(s)
        if not o or o == s:
            print(f'[{hid}] not applicable: {what}'); continue
        open(p, 'w').write(o)
        t = subprocess.run(f'cd {wt} && PYTHONPATH={wt}/src:{wt}/DHLLDV_viewer /venv/bin/python -m pytest -q -p no:cacheprovider --timeout=900 --continue-on-collection-errors 2>&1 | tail -1', shell=True, capture_output=True, text=True).stdout.strip()
        for pid in props:
            r = subprocess.run([os.path.join(VERIF, 'check'), pid, '--tier', 'quick'], cwd=VERIF, env=dict(os.environ, VERIF_REPO=wt), capture_output=True, text=True)
            line = [l for l in r.stdout.splitlines() if not l.startswith('KNOWN')][-1] if r.stdout.strip() else '?'
            print(f'[{hid} {pid}] rc={r.returncode} {line[:110]} | {what} | tests: {t[:40]}')
    finally:
        subprocess.run(f'git -C /repo worktree remove --force {wt}', shell=True)
for g in ('gen.py', 'gen_deps.py', 'gen_files.py', 'gen_units.py', 'gen_pumps.py'):
    subprocess.run(f'/venv/bin/python {VERIF}/tools/translate/{g} /repo {VERIF}/coq/Gen', shell=True, capture_output=True)
