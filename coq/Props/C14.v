(* C14 -- the pressure grade-line matches the pipeline and is computed without side effects.
   Statements only; proofs in Lemmas/LC14.v, LC09b.v. *)
From Coq Require Import Reals List Bool.
From DHV Require Import NumOps RInst SlurryState Pipeline PipelineSlurry LC09b LC14.
Import ListNotations.
Local Open Scope R_scope.

(* one point per section boundary: n sections -> n + 1 locations, pressures and elevations *)
Theorem C14_lengths : forall (im il : R -> R -> R) (point : nat -> R -> bool -> R) (rhol rhom qimin : R)
                             (s : section (T:=R)) (secs : list (section (T:=R))) (Q : R),
  let '(locs, heads, elevs) := hydraulic_gradient RN im il point rhol rhom qimin (s :: secs) Q in
  length locs = S (S (length secs)) /\ length heads = S (S (length secs)) /\ length elevs = S (S (length secs)).
Proof. exact LC14.hg_lengths. Qed.
Print Assumptions C14_lengths.

(* the inlet: location 0, elevation = the first section's elevation change (the suction depth), pressure = the
   hydrostatic submergence -depth * rhol *)
Theorem C14_inlet : forall (im il : R -> R -> R) (point : nat -> R -> bool -> R) (rhol rhom qimin : R)
                           (s : section (T:=R)) (secs : list (section (T:=R))) (Q : R),
  let '(locs, heads, elevs) := hydraulic_gradient RN im il point rhol rhom qimin (s :: secs) Q in
  nth_error locs 0 = Some 0 /\ nth_error elevs 0 = Some (total_lift RN [s]) /\
  nth_error heads 0 = Some (total_lift RN [s] * rhol * - (1)).
Proof. exact LC14.hg_inlet. Qed.
Print Assumptions C14_inlet.

(* boundary k: cumulative length and lift of the first k sections; pressure = pump head minus system head of the
   pipeline truncated there; a non-positive flow means "at the minimum-friction flow" *)
Theorem C14_boundary : forall (im il : R -> R -> R) (point : nat -> R -> bool -> R) (rhol rhom qimin : R)
                              (secs : list (section (T:=R))) (Q : R) (k : nat), (k < length secs)%nat ->
  let '(locs, heads, elevs) := hydraulic_gradient RN im il point rhol rhom qimin secs Q in
  nth_error locs (S k) = Some (total_length RN (firstn (S k) secs)) /\
  nth_error elevs (S k) = Some (total_lift RN (firstn (S k) secs)) /\
  nth_error heads (S k) = Some (gap im il point rhol rhom (firstn (S k) secs) (Qeff qimin Q)).
Proof. exact LC14.hg_boundary. Qed.
Print Assumptions C14_boundary.

Theorem C14_last : forall (im il : R -> R -> R) (point : nat -> R -> bool -> R) (rhol rhom qimin : R)
                          (secs : list (section (T:=R))) (Q : R), secs <> [] ->
  let '(locs, heads, elevs) := hydraulic_gradient RN im il point rhol rhom qimin secs Q in
  nth_error locs (length secs) = Some (total_length RN secs) /\
  nth_error elevs (length secs) = Some (total_lift RN secs) /\
  nth_error heads (length secs) = Some (gap im il point rhol rhom secs (Qeff qimin Q)).
Proof. exact LC14.hg_last. Qed.
Print Assumptions C14_last.

(* no side effects: sections, per-diameter slurries and the pipeline slurry are unchanged whenever the pipeline
   slurry's Dp is one of the section diameters -- which update_slurries establishes (C09_slurry_Dp_in_pipeline) *)
Theorem C14_no_side_effect : forall (sf sq : bool) (p : pl (T:=R)),
  Dp_in_pipeline p -> after_hydraulic_gradient RN sf sq p = p.
Proof. exact LC09b.hg_no_side_effect. Qed.
Print Assumptions C14_no_side_effect.

(* the boundary: without that invariant (the pipeline slurry's Dp edited directly to a foreign diameter, no
   update_slurries afterwards) the temporary pipeline's constructor reassigns the shared slurry's Dp *)
Theorem C14_side_effect_without_invariant : forall (sf sq : bool) (p : pl (T:=R)) (d : R),
  ~ Dp_in_pipeline p -> last_diameter (secs p) = Some d ->
  slurry (after_hydraulic_gradient RN sf sq p) = set_dp RN sf sq (slurry p) d.
Proof. exact LC09b.hg_side_effect_without. Qed.
Print Assumptions C14_side_effect_without_invariant.
