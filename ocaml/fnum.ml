(* fnum.ml: the binary64 reading of NumOps -- OCaml native floats and glibc libm, with the
   exceptions CPython raises where it leaves the reals.  Hand-written, trusted, checked by
   the correspondence runs (every call goes through it). *)
open BinNums
open Datatypes
open NumOps

exception Py of string

let rec int_of_pos (p : positive) : int =
  match p with Coq_xH -> 1 | Coq_xO q -> 2 * int_of_pos q | Coq_xI q -> 2 * int_of_pos q + 1
let int_of_z (z : coq_Z) : int =
  match z with Z0 -> 0 | Zpos p -> int_of_pos p | Zneg p -> - (int_of_pos p)
let rec pos_of_int (n : int) : positive =
  if n <= 1 then Coq_xH else if n land 1 = 0 then Coq_xO (pos_of_int (n lsr 1)) else Coq_xI (pos_of_int (n lsr 1))
let z_of_int (n : int) : coq_Z = if n = 0 then Z0 else if n > 0 then Zpos (pos_of_int n) else Zneg (pos_of_int (- n))
let rec int_of_nat (n : nat) : int = match n with O -> 0 | S m -> 1 + int_of_nat m
let rec nat_of_int (n : int) : nat = if n <= 0 then O else S (nat_of_int (n - 1))

(* exact conversion of a Coq integer to a double (all literals are far below 2^53) *)
let rec float_of_pos_slow (p : positive) : float =
  match p with Coq_xH -> 1.0 | Coq_xO q -> 2.0 *. float_of_pos_slow q | Coq_xI q -> 2.0 *. float_of_pos_slow q +. 1.0
(* fast path: accumulate the bits in a native int (exact below 2^53, which every literal is); numbers of more
   than 52 bits take the slow path *)
let float_of_pos (p : positive) : float =
  let rec go p acc bit n =
    if n > 52 then -1 else
    match p with
    | Coq_xH -> acc lor bit
    | Coq_xO q -> go q acc (bit lsl 1) (n + 1)
    | Coq_xI q -> go q (acc lor bit) (bit lsl 1) (n + 1) in
  let i = go p 0 1 0 in
  if i < 0 then float_of_pos_slow p else float_of_int i
let float_of_z (z : coq_Z) : float =
  match z with Z0 -> 0.0 | Zpos p -> float_of_pos p | Zneg p -> -. (float_of_pos p)

let is_finite (x : float) = (x -. x = 0.0)
let is_integer (x : float) = is_finite x && Float.of_int (Float.to_int x) = x || Float.abs x >= 4503599627370496.0

(* CPython float_pow *)
let py_pow (a : float) (b : float) : float =
  if b = 0.0 then 1.0
  else if Float.is_nan a then a
  else if Float.is_nan b then (if a = 1.0 then 1.0 else b)
  else if a = 0.0 && b < 0.0 then raise (Py "ZeroDivisionError")
  else if a < 0.0 && is_finite a && is_finite b && not (is_integer b) then raise (Py "Complex")
  else begin
    let r = a ** b in
    if (not (is_finite r)) && is_finite a && is_finite b && not (Float.is_nan r) then raise (Py "OverflowError");
    r
  end

let py_div a b = if b = 0.0 then raise (Py "ZeroDivisionError") else a /. b
let py_log a = if Float.is_nan a then a else if a <= 0.0 then raise (Py "ValueError") else log a
let py_log10 a = if Float.is_nan a then a else if a <= 0.0 then raise (Py "ValueError") else log10 a
let py_sqrt a = if Float.is_nan a then a else if a < 0.0 then raise (Py "ValueError") else sqrt a
let py_exp a = let r = exp a in if is_finite a && not (is_finite r) then raise (Py "OverflowError") else r
let py_cosh a = let r = cosh a in if is_finite a && not (is_finite r) then raise (Py "OverflowError") else r
let py_sin a = if Float.is_nan a then a else if not (is_finite a) then raise (Py "ValueError") else sin a
let py_trunc a =
  if Float.is_nan a then raise (Py "ValueError")
  else if not (is_finite a) then raise (Py "OverflowError")
  else z_of_int (Float.to_int a)

(* builtin sum() as CPython 3.12 computes it for a list of floats: start with int 0, the
   first float replaces it, the rest are added with Neumaier compensation *)
let py_sum (l : float list) : float =
  match l with
  | [] -> 0.0
  | x0 :: rest ->
    let f = ref (0.0 +. x0) and c = ref 0.0 in
    Stdlib.List.iter (fun x ->
      let t = !f +. x in
      if Float.abs !f >= Float.abs x then c := !c +. ((!f -. t) +. x)
      else c := !c +. ((x -. t) +. !f);
      f := t) rest;
    if !c <> 0.0 && is_finite !c then !f +. !c else !f

let err_name (n : nat) : string =
  match int_of_nat n with
  | 1 -> "IndexError" | 2 -> "ValueError" | 3 -> "KeyError" | 4 -> "StopIteration" | 9 -> "Fuel"
  | k -> "Error" ^ string_of_int k

let fN : float coq_NumOps = {
  nadd = (fun a b -> a +. b); nsub = (fun a b -> a -. b); nmul = (fun a b -> a *. b);
  ndiv = py_div; nneg = (fun a -> -. a); nabs = Float.abs;
  npow = py_pow; npown = (fun a n -> py_pow a (Float.of_int (int_of_nat n)));
  nln = py_log; nlog10 = py_log10; nexp = py_exp; nsin = py_sin; ncosh = py_cosh; nsqrt = py_sqrt;
  npi = 3.141592653589793;
  nltb = (fun a b -> a < b); nleb = (fun a b -> a <= b); neqb = (fun a b -> a = b);
  nmin = (fun a b -> if b < a then b else a);
  nmax = (fun a b -> if b > a then b else a);
  ntrunc = py_trunc;
  nint = float_of_z;
  nlit = (fun n d -> float_of_z n /. float_of_pos d);
  nsum = py_sum;
  nfail = (fun n -> raise (Py (err_name n)));
}

(* ---- line protocol helpers ---- *)
let num (s : string) : float = float_of_string s
let boolean (s : string) : bool = (s = "1" || s = "true" || s = "True")
let natural (s : string) : nat = nat_of_int (int_of_string s)
let out_num (x : float) : string = Printf.sprintf "%h" x
let out_bool (b : bool) : string = if b then "1" else "0"

let char_of_ascii (a : Ascii.ascii) : char =
  match a with
  | Ascii.Ascii (b0, b1, b2, b3, b4, b5, b6, b7) ->
    let v b k = if b then 1 lsl k else 0 in
    Char.chr (v b0 0 + v b1 1 + v b2 2 + v b3 3 + v b4 4 + v b5 5 + v b6 6 + v b7 7)
let rec ocaml_string (s : String.string) : string =
  match s with
  | String.EmptyString -> ""
  | String.String (a, r) -> Stdlib.String.make 1 (char_of_ascii a) ^ ocaml_string r
let out_str (s : String.string) : string =
  Stdlib.String.map (fun c -> if c = ' ' then '_' else c) (ocaml_string s)
