(* Proofs for C10: decision logic of find_operating_point, what a converged secant search guarantees, and what the
   bracketed fallback adds. *)
From Coq Require Import Reals List Bool Lra.
From DHV Require Import NumOps RInst OpPoint.
Import ListNotations.
Local Open Scope R_scope.

Section S.
Variable gap : R -> R.
Variable raises : R -> bool.
Notation fop := (find_operating_point RN gap raises).

Definition tolR : R := 148 / 10000000000.

(* pump head below system head at the minimum-friction flow: OperatingPointError, nothing is searched *)
Lemma infeasible qimin qlast hsys hpump bc br hs hp : hpump < hsys -> fop qimin qlast hsys hpump bc br hs hp = (OperatingPointError, []).
Proof. intro H. unfold find_operating_point. toR. rewrite (proj2 (Rltb_true hpump hsys) H). reflexivity. Qed.

Lemma heads_equal_spec hs hp : heads_equal RN hs hp = true <-> Rabs (hs - hp) <= 1 / 1000000 * Rmax (Rabs hs) (Rabs hp).
Proof. unfold heads_equal. toR. apply Rleb_true. Qed.

(* the outcomes.  A flow is returned only (a) as a root the secant search reports as converged, at or right of the
   minimum-friction flow, or (b) as the answer of the bracketing solver -- asked only when (a) failed and the gap is
   positive at the largest flow -- and then only when it converged and the heads at it agree to 1e-6 relative.
   scipy's ValueError (its two starting flows coincide) cannot occur: over the reals they coincide only when the
   minimum-friction flow IS the largest flow, which is answered with OperatingPointError before the search (in binary64
   a largest flow one ulp above qimin would still coincide).  IndexError escapes only from the evaluation at the largest
   tabulated flow; one raised inside the secant search is swallowed. *)
Lemma outcomes qimin qlast hsys hpump bc br hs hp :
  let x1 := (qimin + qlast) / 2 in
  (exists r vis, fop qimin qlast hsys hpump bc br hs hp = (Ok r, vis) /\ hsys <= hpump /\ qimin < qlast /\
     ((qimin <= r /\ secant RN gap raises qimin x1 = (Some (r, true), vis)) \/
      (r = br /\ accepted RN qimin (fst (secant RN gap raises qimin x1)) = None /\ raises qlast = false /\ 0 < gap qlast /\ bc = true /\
       Rabs (hs - hp) <= 1 / 1000000 * Rmax (Rabs hs) (Rabs hp)))) \/
  (exists vis, fop qimin qlast hsys hpump bc br hs hp = (OperatingPointError, vis)) \/
  (exists vis, fop qimin qlast hsys hpump bc br hs hp = (IndexErr, vis) /\ raises qlast = true).
Proof.
  cbv zeta. unfold find_operating_point. toR. destruct (Rltb hpump hsys) eqn:B; [right; left; eauto|].
  apply Rltb_false in B. destruct (Rleb qlast qimin) eqn:QL; [right; left; eauto|]. apply Rleb_false in QL. cbv zeta.
  assert (E : Reqb ((qimin + qlast) / 2) qimin = false).
  { unfold Reqb. destruct (Req_EM_T ((qimin + qlast) / 2) qimin) as [A|_]; [lra|reflexivity]. }
  rewrite E.
  destruct (secant RN gap raises qimin ((qimin + qlast) / 2)) as [r vis] eqn:S. cbn [fst].
  destruct (accepted RN qimin r) as [root|] eqn:A.
  - left. exists root, vis. split; [reflexivity|]. split; [exact B|]. split; [exact QL|]. left.
    unfold accepted in A. destruct r as [[r0 c]|]; [|discriminate A]. destruct c; [|discriminate A]. toR_in A.
    destruct (Rleb qimin r0) eqn:L; [|discriminate A]. injection A as <-. apply Rleb_true in L. split; [exact L|reflexivity].
  - destruct (raises qlast) eqn:RL; [right; right; eauto|].
    destruct (Rltb 0 (gap qlast)) eqn:G; [|right; left; eauto].
    destruct (bc && heads_equal RN hs hp)%bool eqn:H; [|right; left; eauto].
    apply andb_true_iff in H. destruct H as [Hb Hh]. apply heads_equal_spec in Hh. apply Rltb_true in G.
    left. exists br, vis. split; [reflexivity|]. split; [exact B|]. split; [exact QL|]. right. repeat split; assumption.
Qed.

(* the landing clause: pump head at least system head at the minimum-friction flow, system head above pump head at the
   largest flow, and a bracketing solver that converges to a flow at which the heads agree: a flow is returned whatever
   the unbracketed search did -- its own converged root right of qimin, or else the bracketed one *)
Lemma lands qimin qlast hsys hpump br hs hp : hsys <= hpump -> qimin < qlast ->
  raises qlast = false -> 0 < gap qlast -> Rabs (hs - hp) <= 1 / 1000000 * Rmax (Rabs hs) (Rabs hp) ->
  exists r vis, fop qimin qlast hsys hpump true br hs hp = (Ok r, vis) /\
    (r = br \/ (qimin <= r /\ secant RN gap raises qimin ((qimin + qlast) / 2) = (Some (r, true), vis))).
Proof.
  intros H1 H2 H3 H4 H5. unfold find_operating_point. toR.
  rewrite (proj2 (Rltb_false hpump hsys) H1). rewrite (proj2 (Rleb_false qlast qimin) H2). cbv zeta.
  assert (E : Reqb ((qimin + qlast) / 2) qimin = false).
  { unfold Reqb. destruct (Req_EM_T ((qimin + qlast) / 2) qimin) as [A|_]; [lra|reflexivity]. }
  rewrite E. destruct (secant RN gap raises qimin ((qimin + qlast) / 2)) as [r vis] eqn:S.
  destruct (accepted RN qimin r) as [root|] eqn:A.
  - exists root, vis. split; [reflexivity|]. right.
    unfold accepted in A. destruct r as [[r0 c]|]; [|discriminate A]. destruct c; [|discriminate A]. toR_in A.
    destruct (Rleb qimin r0) eqn:L; [|discriminate A]. injection A as <-. apply Rleb_true in L. split; [exact L|reflexivity].
  - rewrite H3, (proj2 (Rltb_true 0 (gap qlast)) H4). rewrite (proj2 (heads_equal_spec hs hp) H5). cbn [andb].
    exists br, vis. split; [reflexivity|left; reflexivity].
Qed.

(* the minimum-friction flow at (or beyond) the largest flow: OperatingPointError, nothing is searched *)
Lemma at_end qimin qlast hsys hpump bc br hs hp : qlast <= qimin -> hsys <= hpump ->
  fop qimin qlast hsys hpump bc br hs hp = (OperatingPointError, []).
Proof.
  intros H1 H2. unfold find_operating_point. toR. rewrite (proj2 (Rltb_false hpump hsys) H2), (proj2 (Rleb_true qlast qimin) H1). reflexivity.
Qed.

(* a converged search: the reported root is one secant update from the last evaluated flow b, no further than the
   step tolerance from it, with distinct gap values at the two points it was computed from *)
Lemma loop_converged : forall fuel p0 q0 p1 q1 vis r vis',
  secant_loop RN gap raises fuel p0 q0 p1 q1 vis = (Some (r, true), vis') -> q0 = gap p0 -> q1 = gap p1 ->
  exists a b, r = secant_step RN a (gap a) b (gap b) /\ Rabs (r - b) <= tolR /\ gap b <> gap a.
Proof.
  induction fuel as [|fuel IH]; intros p0 q0 p1 q1 vis r vis' H E0 E1; [discriminate H|].
  cbn [secant_loop] in H. toR_in H. destruct (Reqb q1 q0) eqn:Q; [discriminate H|].
  cbv zeta in H. destruct (Rleb (Rabs (secant_step RN p0 q0 p1 q1 - p1)) (tol RN)) eqn:C.
  - injection H as <- _. exists p0, p1. rewrite <- E0, <- E1. split; [reflexivity|]. split.
    + apply Rleb_true in C. unfold tol in C. toR_in C. exact C.
    + intro A. unfold Reqb in Q. destruct (Req_EM_T q1 q0) as [_|N]; [discriminate Q|]. apply N. exact A.
  - destruct (raises (secant_step RN p0 q0 p1 q1)); [discriminate H|].
    eapply IH; [exact H|exact E1|reflexivity].
Qed.

Lemma secant_converged x0 x1 r vis : secant RN gap raises x0 x1 = (Some (r, true), vis) ->
  exists a b, r = secant_step RN a (gap a) b (gap b) /\ Rabs (r - b) <= tolR /\ gap b <> gap a.
Proof.
  unfold secant. destruct (raises x0); [discriminate|]. destruct (raises x1); [discriminate|]. cbv zeta.
  destruct (nltb RN _ _); intro H; eapply loop_converged; try exact H; reflexivity.
Qed.

(* the secant update written the textbook way *)
Lemma secant_step_formula a fa b fb : fb <> fa -> fa <> 0 \/ fb <> 0 ->
  secant_step RN a fa b fb = b - fb * (b - a) / (fb - fa).
Proof.
  intros Hd Hz. unfold secant_step. toR.
  assert (D : fb - fa <> 0) by (intro Z; apply Hd; lra).
  destruct (Rltb (Rabs fa) (Rabs fb)) eqn:B.
  - assert (Hb : fb <> 0) by (intro Z; subst; apply Rltb_true in B; rewrite Rabs_R0 in B; pose proof (Rabs_pos fa); lra).
    field. repeat split; try assumption; intro Z; apply Hd; lra.
  - assert (Ha : fa <> 0).
    { intro Z; subst. apply Rltb_false in B. rewrite Rabs_R0 in B. pose proof (Rabs_pos fb).
      destruct Hz as [Hz|Hz]; [apply Hz; reflexivity|]. pose proof (Rabs_pos_lt fb Hz). lra. }
    field. repeat split; try assumption; intro Z; apply Hd; lra.
Qed.

(* hence at the last evaluated flow b the two heads differ by at most tolerance x |secant slope| *)
Lemma residual_bound a b r : gap b <> gap a -> b <> a ->
  r = b - gap b * (b - a) / (gap b - gap a) -> Rabs (r - b) <= tolR ->
  Rabs (gap b) <= tolR * Rabs ((gap b - gap a) / (b - a)).
Proof.
  intros Hd Hab E HT. set (fa := gap a) in *. set (fb := gap b) in *.
  assert (X : r - b = - (fb * ((b - a) / (fb - fa)))) by (rewrite E; field; lra).
  rewrite X, Rabs_Ropp, Rabs_mult in HT.
  assert (P : 0 < Rabs ((fb - fa) / (b - a))).
  { apply Rabs_pos_lt. unfold Rdiv. apply Rmult_integral_contrapositive_currified; [lra|apply Rinv_neq_0_compat; lra]. }
  assert (I : Rabs ((b - a) / (fb - fa)) * Rabs ((fb - fa) / (b - a)) = 1).
  { rewrite <- Rabs_mult. replace ((b - a) / (fb - fa) * ((fb - fa) / (b - a))) with 1 by (field; lra). apply Rabs_R1. }
  assert (Rabs fb = Rabs fb * Rabs ((b - a) / (fb - fa)) * Rabs ((fb - fa) / (b - a))) by (rewrite Rmult_assoc, I; ring).
  rewrite H. apply Rmult_le_compat_r; [lra|exact HT].
Qed.
End S.

(* ---------- Pipeline.qimin after the repair: never above a tabulated flow ---------- *)
Lemma lexmin_le : forall (l : list (R * R)) h q, lexmin RN l = Some (h, q) -> forall h' q', In (h', q') l -> h <= h'.
Proof.
  induction l as [|[h0 q0] r IH]; intros h q H h' q' HI; [destruct HI|].
  cbn [lexmin] in H. destruct (lexmin RN r) as [[h1 q1]|] eqn:E.
  - toR_in H. destruct (Rltb h0 h1 || Reqb h0 h1 && Rleb q0 q1)%bool eqn:B.
    + injection H as <- <-. destruct HI as [HI|HI]; [injection HI as <- <-; lra|].
      pose proof (IH h1 q1 eq_refl h' q' HI).
      apply orb_true_iff in B. destruct B as [B|B]; [apply Rltb_true in B; lra|].
      apply andb_true_iff in B. destruct B as [B _]. apply Reqb_true in B. lra.
    + injection H as <- <-. destruct HI as [HI|HI]; [|exact (IH h1 q1 eq_refl h' q' HI)].
      injection HI as <- <-. apply orb_false_iff in B. destruct B as [B _]. apply Rltb_false in B. exact B.
  - injection H as <- <-. destruct HI as [HI|HI]; [injection HI as <- <-; lra|].
    destruct r as [|[a b] r']; [destruct HI|]. cbn [lexmin] in E. destruct (lexmin RN r') as [[? ?]|]; [destruct (_ || _)%bool|]; discriminate E.
Qed.

(* the flow reported has a system head (as the code saw it) no higher than that at ANY tabulated flow at or above the
   lower bound of the search -- whatever the two bounded minimisations returned *)
Theorem qimin_not_above_tabulated (flows : list R) (head : R -> R) (rx rf fx ff : R) :
  forall q, In q flows -> lower_bound RN flows <= q -> snd (qimin RN flows head rx rf fx ff) <= head q.
Proof.
  intros q Hq Hl. unfold qimin. cbv zeta.
  set (tab := map (fun q0 => (head q0, q0)) (filter (fun q0 => nleb RN (lower_bound RN flows) q0) flows)).
  assert (Hin : In (head q, q) tab).
  { unfold tab. apply in_map_iff. exists q. split; [reflexivity|]. apply filter_In. split; [exact Hq|]. toR. apply Rleb_true. exact Hl. }
  destruct (lexmin RN tab) as [[ht qt]|] eqn:E.
  - pose proof (lexmin_le tab ht qt E (head q) q Hin) as M. toR.
    destruct (Rltb ht rf) eqn:B.
    + match goal with |- context [if Rltb ?a ?b then _ else _] => destruct (Rltb a b) end; [|cbn [snd]; exact M].
      destruct (Rleb ff ht) eqn:F; cbn [snd]; [apply Rleb_true in F; lra|exact M].
    + cbn [snd]. apply Rltb_false in B. lra.
  - exfalso. destruct tab as [|[a b] r]; [destruct Hin|]. cbn [lexmin] in E. destruct (lexmin RN r) as [[? ?]|]; [destruct (_ || _)%bool|]; discriminate E.
Qed.
