(* C12 -- the discretised grain-size distribution is a valid, faithful distribution.
   Statements only; proofs in Lemmas/LC12.v .. LC12e.v.  Model: Models/Fracs.v (hand-written; whole dict compared bit
   for bit with DHLLDV_framework.create_fracs, Slurry.get_dx and Slurry.generate_GSD on 3-, 4- and 5-point inputs). *)
From Coq Require Import Reals List Bool ZArith Sorted.
From DHV Require Import NumOps RInst Interp Fracs LC18 LC12 LC12b LC12c LC12d LC12e.
From DHV Require Framework.
Import ListNotations.
Local Open Scope R_scope.

(* GENERAL (any number of input points, any subdivision count n): after the points below the pseudo-liquid limit
   have been discarded, the result is [start point when the log-linear distribution reaches the limit at a positive
   fraction] ++ [n interior nodes + the input point, for every remaining interval] ++ [one extrapolated top point];
   it is strictly increasing in fraction AND in diameter, and the top fraction is at most 0.999 *)
Theorem C12_structure : forall (dmin flow dlow fnext dnext : R) (rest : list (R * R)) (pl nf : Z) (n : nat),
  both_increasing ((flow, dlow) :: (fnext, dnext) :: rest) -> 0 < dlow ->
  Forall (fun p => fst p <> 0) ((fnext, dnext) :: rest) -> 0 < dmin < dnext ->
  Z.max (- ((- (nf - pl - 1)) / pl)) 0 = Z.of_nat n ->
  (forall p, In p ((fnext, dnext) :: rest) -> fst p < 999 / 1000) -> 0 < fnext ->
  forall a b, last2 (body dmin flow dlow fnext dnext rest n) = Some (a, b) ->
  let bd := body dmin flow dlow fnext dnext rest n in
  let fs := snd (main RN (start_f dmin flow dlow fnext dnext) (start_d dmin flow dlow fnext dnext) ((fnext, dnext) :: rest) (Z.of_nat n)
                     (start_nodes dmin flow dlow fnext dnext) 0) in
  let fthis := Rmin (fst b + fs) (999 / 1000) in
  let top := (fthis, pow10 RN (log10_interp RN (snd a) (snd b) (fst a) (fst b) fthis)) in
  create_fracs_tail RN dmin flow dlow fnext dnext rest pl nf = bd ++ [top] /\
  both_increasing (bd ++ [top]) /\ fst b < fthis <= 999 / 1000.
Proof. exact LC12c.tail_shape. Qed.
Print Assumptions C12_structure.

(* count, containment of the input points, and the start *)
Theorem C12_count_and_points : forall (dmin flow dlow fnext dnext : R) (rest : list (R * R)) (n : nat),
  length (body dmin flow dlow fnext dnext rest n) =
    ((if Rltb 0 (X_of dlow dnext flow fnext dmin) then 1 else 0) + length ((fnext, dnext) :: rest) * S n)%nat /\
  (forall p, In p ((fnext, dnext) :: rest) -> In p (body dmin flow dlow fnext dnext rest n)).
Proof. intros. split; [apply LC12c.body_length|apply LC12c.body_contains]. Qed.
Print Assumptions C12_count_and_points.

(* it starts at the pseudo-liquid limiting diameter exactly when the log-linear distribution reaches it at a positive
   fraction X, and (X, dmin) is ON that log-linear line; never below it *)
Theorem C12_start : forall (dmin flow dlow fnext dnext : R) (rest : list (R * R)) (n : nat),
  both_increasing ((flow, dlow) :: (fnext, dnext) :: rest) -> 0 < dlow -> 0 < dmin < dnext ->
  0 < X_of dlow dnext flow fnext dmin ->
  exists r, body dmin flow dlow fnext dnext rest n = (X_of dlow dnext flow fnext dmin, dmin) :: r /\
            pow10 RN (log10_interp RN dlow dnext flow fnext (X_of dlow dnext flow fnext dmin)) = dmin.
Proof. intros dmin flow dlow fnext dnext rest n H1 H2 H3 H4. exact (LC12c.body_starts_at_dmin dmin flow dlow fnext dnext rest n H1 H2 H3 H4). Qed.
Print Assumptions C12_start.

(* the first loop: what is handed to the rest is a suffix window of the sorted input *)
Theorem C12_skip : forall (dmin flow dlow fnext dnext : R) (rest : list (R * R)) (pl : Z) (ft dt : R),
  (dmin <= dnext -> skip RN dmin flow dlow fnext dnext rest pl = (flow, dlow, fnext, dnext, rest, pl)) /\
  (dnext < dmin -> dmin <= dt -> ft <> 0 ->
   skip RN dmin flow dlow fnext dnext ((ft, dt) :: rest) pl = (fnext, dnext, ft, dt, rest, (pl - 1)%Z)).
Proof. intros. split; [apply LC12d.skip_none|apply LC12d.skip_one]. Qed.
Print Assumptions C12_skip.

(* the D15 / D50 / D85 input of the slurry object, D50 above the limit: 12 or 11 nodes (at least the ten requested),
   strictly increasing in both columns, D50 and D85 nodes with their own diameters *)
Theorem C12_three_point : forall (d15 d50 d85 Dp nu rhol rhos : R),
  0 < d15 < d50 /\ d50 < d85 -> 0 < Framework.pseudo_dlim RN Dp nu rhol rhos < d50 ->
  let dmin := Framework.pseudo_dlim RN Dp nu rhol rhos in
  let bd := body dmin (15 / 100) d15 (50 / 100) d50 [(85 / 100, d85)] 4 in
  forall a b, last2 bd = Some (a, b) ->
  exists top, create_fracs RN [(15 / 100, d15); (50 / 100, d50); (85 / 100, d85)] Dp nu rhol rhos 10 = bd ++ [top] /\
    both_increasing (bd ++ [top]) /\ fst b < fst top <= 999 / 1000 /\
    In (50 / 100, d50) bd /\ In (85 / 100, d85) bd /\
    length (bd ++ [top]) = ((if Rltb 0 (X_of d15 d50 (15 / 100) (50 / 100) dmin) then 1 else 0) + 11)%nat.
Proof. intros d15 d50 d85 Dp nu rhol rhos Hd Hm. exact (LC12d.three_point_structure d15 d50 d85 Dp nu rhol rhos Hd Hm). Qed.
Print Assumptions C12_three_point.

(* it reproduces every given point: D50 and D85 as nodes, D15 by log-linear interpolation (also when D15 itself lies
   below the limit: then by extending the first segment) *)
Theorem C12_reproduces : forall (d15 d50 d85 Dp nu rhol rhos : R),
  0 < d15 < d50 /\ d50 < d85 -> 0 < Framework.pseudo_dlim RN Dp nu rhol rhos < d50 ->
  let res := create_fracs RN [(15 / 100, d15); (50 / 100, d50); (85 / 100, d85)] Dp nu rhol rhos 10 in
  get_dx RN res (15 / 100) = d15 /\ get_dx RN res (5 / 10) = d50 /\ get_dx RN res (85 / 100) = d85.
Proof.
  intros d15 d50 d85 Dp nu rhol rhos Hd Hm. cbv zeta.
  split; [exact (LC12e.get_dx_15 d15 d50 d85 Dp nu rhol rhos Hd Hm)|].
  split; [exact (LC12e.get_dx_50 d15 d50 d85 Dp nu rhol rhos Hd Hm)|exact (LC12e.get_dx_85 d15 d50 d85 Dp nu rhol rhos Hd Hm)].
Qed.
Print Assumptions C12_reproduces.

(* the diameter-at-fraction lookup: rejects fractions outside (0,1); returns the tabulated diameter at a tabulated
   fraction; between nodes the interpolated diameter lies strictly between the neighbouring diameters and increases *)
Theorem C12_get_dx : forall (g : list (R * R)) (f d : R),
  (f <= 0 \/ 1 <= f -> get_dx RN g f = nfail RN E_ValueError) /\
  (increasing g -> In (f, d) g -> 0 < f < 1 -> get_dx RN g f = d).
Proof. intros. split; [apply LC12.get_dx_rejects|apply LC12.get_dx_node]. Qed.
Print Assumptions C12_get_dx.

Theorem C12_interpolation_monotone : forall dlow dnext flow fnext f1 f2 : R,
  0 < dlow < dnext -> flow < fnext -> f1 < f2 ->
  pow10 RN (log10_interp RN dlow dnext flow fnext f1) < pow10 RN (log10_interp RN dlow dnext flow fnext f2).
Proof. intros. apply LC12.pow10_increasing. apply LC12.log10_interp_increasing; assumption. Qed.
Print Assumptions C12_interpolation_monotone.

(* subdivision counts for the default of ten fractions (rounded up): two intervals left -> 4, one -> 8, three -> 2, four -> 2 *)
Theorem C12_between_points :
  Z.max (- ((- (10 - 2 - 1)) / 2)) 0 = Z.of_nat 4 /\ Z.max (- ((- (10 - 1 - 1)) / 1)) 0 = Z.of_nat 8 /\
  Z.max (- ((- (10 - 3 - 1)) / 3)) 0 = Z.of_nat 2 /\ Z.max (- ((- (10 - 4 - 1)) / 4)) 0 = Z.of_nat 2.
Proof. exact (conj LC12c.between_points_3 (conj LC12c.between_points_1 (conj LC12c.between_points_3pl LC12c.between_points_4pl))). Qed.
Print Assumptions C12_between_points.

(* the diameter-at-fraction lookup is increasing over the WHOLE of (0, 1) -- across nodes, at nodes, and in the two
   extrapolated ends -- for every grading whose fractions and (positive) diameters both increase, which is what
   C12_structure / C12_three_point establish for the gradings create_fracs returns *)
From DHV Require Import LMono.
Theorem C12_get_dx_increasing : forall (g : list (R * R)) (f1 f2 : R),
  both_increasing g -> Forall (fun p => 0 < snd p) g -> (2 <= length g)%nat ->
  0 < f1 -> f1 < f2 -> f2 < 1 -> get_dx RN g f1 < get_dx RN g f2.
Proof. exact LMono.get_dx_increasing. Qed.
Print Assumptions C12_get_dx_increasing.

(* closed corollary for the slurry object's D15 / D50 / D85 input (D50 above the pseudo-liquid limit): every diameter
   of the generated grading is positive and its lookup is strictly increasing over the whole of (0, 1) *)
From DHV Require Import LC12f.
Theorem C12_three_point_get_dx_increasing : forall (d15 d50 d85 Dp nu rhol rhos : R),
  0 < d15 < d50 /\ d50 < d85 -> 0 < Framework.pseudo_dlim RN Dp nu rhol rhos < d50 ->
  let res := create_fracs RN [(15 / 100, d15); (50 / 100, d50); (85 / 100, d85)] Dp nu rhol rhos 10 in
  Forall (fun p => 0 < snd p) res /\
  forall f1 f2, 0 < f1 -> f1 < f2 -> f2 < 1 -> get_dx RN res f1 < get_dx RN res f2.
Proof. exact LC12f.three_point_get_dx_increasing. Qed.
Print Assumptions C12_three_point_get_dx_increasing.

From DHV Require Import LC12g.
(* faithful BETWEEN the given points: for a fraction strictly between two tabulated fractions the lookup stays strictly
   between the two tabulated diameters -- for every grading with increasing fractions and positive increasing diameters *)
Theorem C12_get_dx_between_nodes : forall (g : list (R * R)) (fa da fb db f : R),
  both_increasing g -> Forall (fun p => 0 < snd p) g -> (2 <= length g)%nat ->
  In (fa, da) g -> In (fb, db) g -> 0 < fa -> fb < 1 -> fa < f < fb ->
  da < get_dx RN g f < db.
Proof. exact LC12g.get_dx_between_nodes. Qed.
Print Assumptions C12_get_dx_between_nodes.

(* closed form for the slurry object's D15 / D50 / D85 input: between 15 % and 85 % the generated grading never leaves
   [D15, D85], and D50 separates the two halves *)
Theorem C12_three_point_between : forall (d15 d50 d85 Dp nu rhol rhos : R),
  0 < d15 < d50 /\ d50 < d85 -> 0 < Framework.pseudo_dlim RN Dp nu rhol rhos < d50 ->
  let res := create_fracs RN [(15 / 100, d15); (50 / 100, d50); (85 / 100, d85)] Dp nu rhol rhos 10 in
  forall f, (5 / 10 < f < 85 / 100 -> d50 < get_dx RN res f < d85) /\
            (15 / 100 < f < 5 / 10 -> d15 < get_dx RN res f < d50).
Proof. exact LC12g.three_point_between. Qed.
Print Assumptions C12_three_point_between.
